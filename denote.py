"""denote -- reading the library's *data model* (not its evaluator) as z3 terms.

Walks the public attributes of the object model (Action.signature/preconditions/discrete_effects/
numeric_effects/conditional_effects/universal_effects, Precondition.binary_operator/operands/
equality_preconditions/inequality_preconditions, UniversalPrecondition.quantified_*, Predicate.name/
signature/is_positive, NumericalExpressionTree.root, ConditionalEffect.*, UniversalEffect.*) and emits
the same kind of terms as ref.sem.CallSem over the same variable registry.  Coupled to those attribute
names by design: if they are refactored the walker raises DenoteError (exit 2), it does not guess.
"""
from fractions import Fraction
from typing import Dict, List

import z3

from ref.sem import CallSem, Vars, atom_name, exact_real


class DenoteError(Exception):
    pass


def _cls(x):
    return type(x).__name__


class Denote:
    def __init__(self, domain, objects: Dict[str, str], eps: Fraction, vars: Vars):
        """objects: name -> type name (problem objects); constants come from domain.constants"""
        self.domain = domain
        self.vars = vars
        self.eps = z3.Q(eps.numerator, eps.denominator)
        self.objects = {}
        for o, t in objects.items():
            if t not in domain.types:
                raise DenoteError(f"object type {t} not in the model's types")
            self.objects[o] = domain.types[t]
        self.consts = {n: c.type for n, c in domain.constants.items()}
        self._defined = []

    # -- helpers ---------------------------------------------------------------------------
    def objects_of(self, pddl_type) -> List[str]:
        allo = dict(self.objects)
        for k, v in self.consts.items():
            allo.setdefault(k, v)
        return [n for n, t in allo.items() if t.is_sub_type(pddl_type)]

    def term(self, tok: str, env):
        if tok in env:
            return env[tok]
        if tok in self.consts or tok in self.objects:
            return tok
        raise DenoteError(f"term {tok!r} is neither a bound parameter nor an object/constant of the model")

    def abs_(self, x):
        return z3.If(x >= 0, x, -x)

    def num(self, node, env):
        v = self._num(node, env)
        return exact_real(v) if isinstance(v, float) else v

    def _num(self, node, env):
        val = node.value
        if len(node.children) == 0:
            if _cls(val) == "PDDLFunction":
                args = [self.term(a, env) for a in val.signature.keys()]
                return self.vars.fluent(atom_name(val.name, args))
            if isinstance(val, (int, float)):
                return float(val)
            raise DenoteError(f"numeric leaf {val!r}")
        if len(node.children) != 2:
            raise DenoteError(f"numeric node {val!r} with {len(node.children)} children")
        l, r = self._num(node.children[0], env), self._num(node.children[1], env)
        if val not in ("+", "-", "*", "/"):
            raise DenoteError(f"numeric operator {val!r}")
        if isinstance(l, float) and isinstance(r, float):
            if val == "/" and r == 0.0:
                self._defined.append(z3.BoolVal(False))
                return 0.0
            return {"+": l + r, "-": l - r, "*": l * r, "/": l / r if val == "/" else 0.0}[val]
        x = exact_real(l) if isinstance(l, float) else l
        y = exact_real(r) if isinstance(r, float) else r
        if val == "+":
            return x + y
        if val == "-":
            return x - y
        if val == "*":
            return x * y
        self._defined.append(y != 0)
        return x / y

    def compare(self, op, l, r):
        close = self.abs_(l - r) <= self.eps
        if op == "=":
            return close
        if op == "<=":
            return z3.Or(close, l < r)
        if op == ">=":
            return z3.Or(close, l > r)
        if op == "<":
            return l < r
        if op == ">":
            return l > r
        if op == "!=":
            return z3.Not(close)
        raise DenoteError(f"comparison {op!r}")

    # -- conditions -------------------------------------------------------------------------
    def literal(self, pred, env):
        args = [self.term(a, env) for a in pred.signature.keys()]
        a = self.vars.atom(atom_name(pred.name, args))
        return a if pred.is_positive else z3.Not(a)

    def condition(self, pre, env):
        """pre: Precondition / UniversalPrecondition"""
        if _cls(pre) == "UniversalPrecondition":
            parts = []
            for o in self.objects_of(pre.quantified_type):
                e2 = dict(env)
                e2[pre.quantified_parameter] = o
                parts.append(self._junction(pre, e2))
            return z3.And([z3.BoolVal(True)] + parts)
        return self._junction(pre, env)

    def _junction(self, pre, env):
        parts = []
        for (a, b) in pre.equality_preconditions:
            parts.append(z3.BoolVal(self.term(a, env) == self.term(b, env)))
        for (a, b) in pre.inequality_preconditions:
            parts.append(z3.BoolVal(self.term(a, env) != self.term(b, env)))
        for o in pre.operands:
            c = _cls(o)
            if c in ("Predicate", "GroundedPredicate"):
                parts.append(self.literal(o, env))
            elif c == "NumericalExpressionTree":
                root = o.root
                if len(root.children) != 2:
                    raise DenoteError("comparison without two children")
                parts.append(self.compare(root.value, self.num(root.children[0], env), self.num(root.children[1], env)))
            elif c in ("Precondition", "UniversalPrecondition"):
                parts.append(self.condition(o, env))
            else:
                raise DenoteError(f"operand of class {c}")
        if pre.binary_operator == "and":
            return z3.And([z3.BoolVal(True)] + parts)
        if pre.binary_operator == "or":
            return z3.Or([z3.BoolVal(False)] + parts)
        raise DenoteError(f"binary operator {pre.binary_operator!r}")

    # -- effects -----------------------------------------------------------------------------
    def _group(self, discrete, numeric, env, guard, group, items):
        for p in discrete:
            args = [self.term(a, env) for a in p.signature.keys()]
            items.append((guard, group, "add" if p.is_positive else "del", atom_name(p.name, args), None))
        for t in numeric:
            root = t.root
            if root.value not in ("assign", "increase", "decrease", "scale-up", "scale-down") or len(root.children) != 2:
                raise DenoteError(f"numeric effect {root.value!r}")
            tgt = root.children[0].value
            if _cls(tgt) != "PDDLFunction":
                raise DenoteError("assignment target is not a function")
            name = atom_name(tgt.name, [self.term(a, env) for a in tgt.signature.keys()])
            items.append((guard, group, "num", name, (root.value, self.num(root.children[1], env))))

    def call(self, action, args: List[str]) -> CallSem:
        params = list(action.signature.keys())
        if len(params) != len(args):
            raise DenoteError(f"action has {len(params)} parameters, call has {len(args)} arguments")
        env = dict(zip(params, args))
        cs = CallSem()
        self._defined = []
        cs.pre = self.condition(action.preconditions.root, env)
        items: list = []
        g = 0
        self._group(action.discrete_effects, action.numeric_effects, env, z3.BoolVal(True), 0, items)
        for ce in action.conditional_effects:
            g += 1
            guard = self.condition(ce.antecedents.root, env)
            self._group(ce.discrete_effects, ce.numeric_effects, env, guard, g, items)
        for ue in action.universal_effects:
            for o in self.objects_of(ue.quantified_type):
                e2 = dict(env)
                e2[ue.quantified_parameter] = o
                for ce in ue.conditional_effects:
                    g += 1
                    guard = self.condition(ce.antecedents.root, e2)
                    self._group(ce.discrete_effects, ce.numeric_effects, e2, guard, g, items)
        cs.groups = g + 1
        cs.defined = z3.And([z3.BoolVal(True)] + self._defined)
        by_atom: Dict[str, list] = {}
        by_fl: Dict[str, list] = {}
        for gd, grp, kind, tgt, payload in items:
            if kind in ("add", "del"):
                by_atom.setdefault(tgt, []).append((gd, grp, kind))
            else:
                by_fl.setdefault(tgt, []).append((gd, grp, payload))
        cons = []
        for a, lst in by_atom.items():
            cs.written_atoms.add(a)
            cur = self.vars.atom(a)
            add = z3.Or([z3.BoolVal(False)] + [x for x, _, k in lst if k == "add"])
            dele = z3.Or([z3.BoolVal(False)] + [x for x, _, k in lst if k == "del"])
            cs.next_atom[a] = z3.Or(add, z3.And(cur, z3.Not(dele)))
            for g1, grp1, k1 in lst:
                for g2, grp2, k2 in lst:
                    if k1 == "add" and k2 == "del" and grp1 != grp2:
                        cons.append(z3.Not(z3.And(g1, g2)))
        for f, lst in by_fl.items():
            cs.written_fluents.add(f)
            cur = self.vars.fluent(f)
            nxt = cur
            for gd, grp, (op, rhs) in reversed(lst):
                v = {"assign": rhs, "increase": cur + rhs, "decrease": cur - rhs, "scale-up": cur * rhs,
                     "scale-down": cur / rhs}[op]
                nxt = z3.If(gd, v, nxt)
            cs.next_fluent[f] = nxt
            for i in range(len(lst)):
                for j in range(i + 1, len(lst)):
                    cons.append(z3.Not(z3.And(lst[i][0], lst[j][0])))
        cs.consistent = z3.And([z3.BoolVal(True)] + cons)
        return cs


def vocabulary(domain) -> dict:
    """plain, comparable description of what the model declares"""
    types = {}
    for n, t in domain.types.items():
        types[n] = t.parent.name if t.parent is not None else None
    return {
        "types": types,
        "constants": {n: c.type.name for n, c in domain.constants.items()},
        "predicates": {n: [(k, v.name) for k, v in p.signature.items()] for n, p in domain.predicates.items()},
        "functions": {n: [(k, v.name) for k, v in f.signature.items()] for n, f in domain.functions.items()},
        "actions": {n: [(k, v.name) for k, v in a.signature.items()] for n, a in domain.actions.items()},
    }


def equivalent(cs1: CallSem, cs2: CallSem, vars: Vars, assume=None, timeout_ms=10000):
    """None if the two call semantics agree on every state; otherwise (what, model)"""
    s = z3.Solver()
    s.set("timeout", timeout_ms)
    if assume is not None:
        s.add(assume)
    diffs = [("precondition", cs1.pre != cs2.pre)]
    for a in sorted(set(cs1.next_atom) | set(cs2.next_atom)):
        cur = vars.atom(a)
        diffs.append((f"successor atom {a}", cs1.next_atom.get(a, cur) != cs2.next_atom.get(a, cur)))
    for f in sorted(set(cs1.next_fluent) | set(cs2.next_fluent)):
        cur = vars.fluent(f)
        diffs.append((f"successor fluent {f}", cs1.next_fluent.get(f, cur) != cs2.next_fluent.get(f, cur)))
    # syntactic fast path: hash-consed identical terms
    diffs = [(w, d) for w, d in diffs if not z3.is_false(z3.simplify(d))]
    if not diffs:
        return None
    r = s.check(z3.Or([d for _, d in diffs]))
    if r == z3.unsat:
        return None
    if r == z3.unknown:
        return ("unknown", None)
    m = s.model()
    for w, d in diffs:
        if z3.is_true(m.eval(d, model_completion=True)):
            return (w, m)
    return ("difference", m)
