"""symx.text -- bounded strings of symbolic ASCII code points.

A SymStr has a fixed length on every path; each element is either a concrete code point (int)
or a z3 Int constrained to 0..127.  The str methods the library applies to its inputs are
implemented in plain Python on top of SymBool: every character test is a solver-decided fork (or
a forced branch), so one path stands for all strings with the same class skeleton.

A SymStr may not become a dict key or go through a C-level str API (join, encode, re): __hash__
raises Unsupported.
"""
from typing import List, Union

import z3

from .core import Ctx, SymBool, Unsupported

WS = (9, 10, 11, 12, 13, 28, 29, 30, 31, 32)  # str.isspace / str.split() on ASCII
LINE_BREAKS = (10, 11, 12, 13, 28, 29, 30)  # str.splitlines on ASCII


class SymChar:
    __slots__ = ("e",)

    def __init__(self, e):
        self.e = e  # int or z3 Int expr

    @property
    def concrete(self):
        return isinstance(self.e, int)

    def z(self):
        return z3.IntVal(self.e) if isinstance(self.e, int) else self.e

    def is_(self, code: int):
        if isinstance(self.e, int):
            return self.e == code
        return SymBool(self.e == code)

    def in_(self, codes):
        if isinstance(self.e, int):
            return self.e in codes
        return SymBool(z3.Or([self.e == c for c in codes]))

    def isspace(self):
        return self.in_(WS)

    def between(self, lo, hi):
        if isinstance(self.e, int):
            return lo <= self.e <= hi
        return SymBool(z3.And(self.e >= lo, self.e <= hi))

    def lower(self):
        if isinstance(self.e, int):
            return SymChar(self.e + 32 if 65 <= self.e <= 90 else self.e)
        return SymChar(z3.If(z3.And(self.e >= 65, self.e <= 90), self.e + 32, self.e))

    def upper(self):
        if isinstance(self.e, int):
            return SymChar(self.e - 32 if 97 <= self.e <= 122 else self.e)
        return SymChar(z3.If(z3.And(self.e >= 97, self.e <= 122), self.e - 32, self.e))

    def eqz(self, o: "SymChar"):
        if isinstance(self.e, int) and isinstance(o.e, int):
            return z3.BoolVal(self.e == o.e)
        return self.z() == o.z()


def _chars(x) -> List[SymChar]:
    if isinstance(x, SymStr):
        return list(x.cs)
    if isinstance(x, str):
        return [SymChar(ord(c)) for c in x]
    raise Unsupported(f"string operation with {type(x)}")


_REG: dict = {}
_REGN = [0]


def registry_lookup(tag: str):
    return _REG.get(tag)


class SymStr:
    __slots__ = ("cs", "_tag")

    def __init__(self, cs):
        self.cs = tuple(cs)
        self._tag = None

    @staticmethod
    def fresh(prefix: str, n: int, ctx: Ctx = None, lo=0, hi=127) -> "SymStr":
        vs = [z3.Int(f"{prefix}{i}") for i in range(n)]
        s = SymStr([SymChar(v) for v in vs])
        return s

    @staticmethod
    def of(text: str) -> "SymStr":
        return SymStr(_chars(text))

    def variables(self):
        return [c.e for c in self.cs if not isinstance(c.e, int)]

    def concrete(self, model=None) -> str:
        out = []
        for c in self.cs:
            if isinstance(c.e, int):
                out.append(chr(c.e))
            else:
                v = model.eval(c.e, model_completion=True) if model is not None else z3.simplify(c.e)
                out.append(chr(v.as_long()))
        return "".join(out)

    # -- container protocol ---------------------------------------------------------------
    def __len__(self):
        return len(self.cs)

    def __iter__(self):
        return (SymStr([c]) for c in self.cs)

    def __getitem__(self, i):
        if isinstance(i, slice):
            return SymStr(self.cs[i])
        return SymStr([self.cs[i]])

    def __add__(self, o):
        return SymStr(list(self.cs) + _chars(o))

    def __radd__(self, o):
        return SymStr(_chars(o) + list(self.cs))

    def __mul__(self, n):
        return SymStr(list(self.cs) * n)

    def __hash__(self):
        raise Unsupported("hash of a symbolic string (dict key / set member)")

    def __bool__(self):
        return len(self.cs) > 0

    # -- comparison -----------------------------------------------------------------------
    def eqz(self, o) -> z3.BoolRef:
        oc = _chars(o)
        if len(oc) != len(self.cs):
            return z3.BoolVal(False)
        parts = [a.eqz(b) for a, b in zip(self.cs, oc)]
        return z3.And(parts) if parts else z3.BoolVal(True)

    def __eq__(self, o):
        if not isinstance(o, (str, SymStr)):
            return False
        e = z3.simplify(self.eqz(o))
        if z3.is_true(e):
            return True
        if z3.is_false(e):
            return False
        return SymBool(e)

    def __ne__(self, o):
        r = self.__eq__(o)
        if isinstance(r, bool):
            return not r
        return SymBool(z3.Not(r.e))

    # -- str methods ------------------------------------------------------------------------
    def lower(self):
        return SymStr([c.lower() for c in self.cs])

    def upper(self):
        return SymStr([c.upper() for c in self.cs])

    def replace(self, old, new, count=-1):
        if not isinstance(old, str) or not isinstance(new, str):
            # symbolic pattern / replacement of known length: left-to-right, non-overlapping, each window test a solver-decided fork
            oc, nc = _chars(old), _chars(new)
            if not oc:
                raise Unsupported("replace of empty pattern")
            out, i, n, m, done = [], 0, len(self.cs), len(oc), 0
            while i < n:
                if i + m <= n and (count < 0 or done < count) and SymStr(self.cs[i:i + m]) == SymStr(oc):
                    out.extend(nc)
                    i += m
                    done += 1
                else:
                    out.append(self.cs[i])
                    i += 1
            return SymStr(out)
        if count is not None and count >= 0:
            raise Unsupported("replace with a count")
        if len(old) != 1:
            return self._replace_multi(old, new)
        out: List[SymChar] = []
        code = ord(old)
        for c in self.cs:
            if c.is_(code):
                out.extend(_chars(new))
            else:
                out.append(c)
        return SymStr(out)

    def _replace_multi(self, old, new):
        if len(old) == 0:
            raise Unsupported("replace of empty pattern")
        out: List[SymChar] = []
        i, n, m = 0, len(self.cs), len(old)
        while i < n:
            if i + m <= n and all(self.cs[i + j].is_(ord(old[j])) for j in range(m)):
                out.extend(_chars(new))
                i += m
            else:
                out.append(self.cs[i])
                i += 1
        return SymStr(out)

    def split(self, sep=None, maxsplit=-1):
        if maxsplit != -1:
            raise Unsupported("split with maxsplit")
        out, cur = [], []
        if sep is None:
            for c in self.cs:
                if c.isspace():
                    if cur:
                        out.append(SymStr(cur))
                        cur = []
                else:
                    cur.append(c)
            if cur:
                out.append(SymStr(cur))
            return out
        if not isinstance(sep, str) or len(sep) != 1:
            raise Unsupported("split with non single-character separator")
        code = ord(sep)
        for c in self.cs:
            if c.is_(code):
                out.append(SymStr(cur))
                cur = []
            else:
                cur.append(c)
        out.append(SymStr(cur))
        return out

    def splitlines(self, keepends=False):
        out, cur = [], []
        i, n = 0, len(self.cs)
        while i < n:
            c = self.cs[i]
            if c.in_(LINE_BREAKS):
                end = [c]
                if c.is_(13) and i + 1 < n and self.cs[i + 1].is_(10):
                    end.append(self.cs[i + 1])
                    i += 1
                out.append(SymStr(cur + (end if keepends else [])))
                cur = []
            else:
                cur.append(c)
            i += 1
        if cur:
            out.append(SymStr(cur))
        return out

    def strip(self, chars=None):
        return self.lstrip(chars).rstrip(chars)

    def lstrip(self, chars=None):
        cs = list(self.cs)
        test = (lambda c: c.isspace()) if chars is None else (lambda c: c.in_([ord(x) for x in chars]))
        while cs and test(cs[0]):
            cs.pop(0)
        return SymStr(cs)

    def rstrip(self, chars=None):
        cs = list(self.cs)
        test = (lambda c: c.isspace()) if chars is None else (lambda c: c.in_([ord(x) for x in chars]))
        while cs and test(cs[-1]):
            cs.pop()
        return SymStr(cs)

    def startswith(self, p):
        pc = _chars(p)
        if len(pc) > len(self.cs):
            return False
        return SymStr(self.cs[: len(pc)]) == SymStr(pc)

    def endswith(self, p):
        pc = _chars(p)
        if len(pc) > len(self.cs):
            return False
        if not pc:
            return True
        return SymStr(self.cs[-len(pc):]) == SymStr(pc)

    def __contains__(self, p):
        pc = _chars(p)
        m = len(pc)
        for i in range(0, len(self.cs) - m + 1):
            if SymStr(self.cs[i:i + m]) == SymStr(pc):
                return True
        return False

    def _bounds(self, start, end):
        n = len(self.cs)
        a, b, _ = slice(start, end).indices(n)
        return a, b

    def find(self, p, start=None, end=None):
        pc = _chars(p)
        m = len(pc)
        a, b = self._bounds(start, end)
        for i in range(a, b - m + 1):
            if SymStr(self.cs[i:i + m]) == SymStr(pc):
                return i
        return -1

    def partition(self, sep):
        i = self.find(sep)
        if i < 0:
            return self, "", ""
        m = len(_chars(sep))
        return SymStr(self.cs[:i]), SymStr(self.cs[i:i + m]), SymStr(self.cs[i + m:])

    def rpartition(self, sep):
        i = self.rfind(sep)
        if i < 0:
            return "", "", self
        m = len(_chars(sep))
        return SymStr(self.cs[:i]), SymStr(self.cs[i:i + m]), SymStr(self.cs[i + m:])

    def rfind(self, p, start=None, end=None):
        pc = _chars(p)
        m = len(pc)
        a, b = self._bounds(start, end)
        for i in range(b - m, a - 1, -1):
            if SymStr(self.cs[i:i + m]) == SymStr(pc):
                return i
        return -1

    def index(self, p, start=None, end=None):
        i = self.find(p, start, end)
        if i < 0:
            raise ValueError("substring not found")
        return i

    def count(self, p, start=None, end=None):
        pc = _chars(p)
        m = len(pc)
        if m == 0:
            raise Unsupported("count of the empty string")
        a, b = self._bounds(start, end)
        n = 0
        i = a
        while i <= b - m:
            if SymStr(self.cs[i:i + m]) == SymStr(pc):
                n += 1
                i += m
            else:
                i += 1
        return n

    def isdigit(self):
        if not self.cs:
            return False
        return all(c.between(48, 57) for c in self.cs)

    def encode(self, *a, **k):
        raise Unsupported("encode of a symbolic string")

    def decode(self, encoding="utf-8", errors="strict"):
        # bytes-mode content of the in-memory file shim; identity on ASCII
        return self

    # -- text of a symbolic string inside an f-string: an opaque placeholder -------------------
    def tag(self) -> str:
        if self._tag is None:
            _REGN[0] += 1
            self._tag = f"\x02S{_REGN[0]}\x03"
            _REG[self._tag] = self
        return self._tag

    def __format__(self, spec):
        if spec not in ("", "s"):
            raise Unsupported(f"format spec {spec!r} on a symbolic string")
        return self.tag()

    def __str__(self):
        return self.tag()

    def __repr__(self):
        parts = []
        for c in self.cs:
            parts.append(repr(chr(c.e))[1:-1] if isinstance(c.e, int) else "?")
        return "SymStr<" + "".join(parts) + ">"


def expand_tags(s: str) -> SymStr:
    """A concrete str that contains placeholder tokens of symbolic strings -> the SymStr it denotes."""
    out: List[SymChar] = []
    i = 0
    while i < len(s):
        if s[i] == "\x02":
            j = s.index("\x03", i)
            tag = s[i:j + 1]
            out.extend(_REG[tag].cs)
            i = j + 1
        else:
            out.append(SymChar(ord(s[i])))
            i += 1
    return SymStr(out)


class SymFile:
    """In-memory text/binary file over a SymStr (the `open` shim)."""

    def __init__(self, content: SymStr, mode="rt", sink=None):
        self.mode = mode
        self.sink = sink
        if "b" in mode or "w" in mode:
            self.content = content
        else:
            # universal newlines: \r\n -> \n, \r -> \n
            cs = list(content.cs)
            out: List[SymChar] = []
            i = 0
            while i < len(cs):
                c = cs[i]
                if c.is_(13):
                    out.append(SymChar(10))
                    if i + 1 < len(cs) and cs[i + 1].is_(10):
                        i += 1
                else:
                    out.append(c)
                i += 1
            self.content = SymStr(out)

    def __enter__(self):
        return self

    def __exit__(self, *a):
        return False

    pos = 0  # read position (characters)

    def read(self, size=-1):
        cs = self.content.cs
        if size is None or size < 0:
            chunk = cs[self.pos:]
        else:
            chunk = cs[self.pos:self.pos + size]
        self.pos += len(chunk)
        if not chunk:
            return b"" if "b" in self.mode else ""  # end of file: the real empty string (used as a sentinel by callers)
        return SymStr(list(chunk))

    def readline(self):
        cur = []
        cs = self.content.cs
        while self.pos < len(cs):
            c = cs[self.pos]
            self.pos += 1
            cur.append(c)
            if c.is_(10):
                break
        return SymStr(cur) if cur else ""

    def readlines(self):
        out = []
        while True:
            line = self.readline()
            if isinstance(line, str) and not line:
                return out
            out.append(line)

    def tell(self):
        return self.pos

    def seek(self, offset, whence=0):
        n = len(self.content.cs)
        self.pos = max(0, min(n, offset if whence == 0 else self.pos + offset if whence == 1 else n + offset))
        return self.pos

    def __iter__(self):
        return iter(self.readlines())

    def writelines(self, lines):
        for l in lines:
            self.sink.append(l)

    def write(self, s):
        self.sink.append(s)

    def close(self):
        pass


def make_open(files: dict, real_open=open):
    """files: path-string -> SymStr content; 'w' mode collects written pieces into files[path+':written']"""

    def _open(path, mode="r", *a, **k):
        key = str(path)
        if key in files:
            if "w" in mode:
                sink = files.setdefault(key + ":written", [])
                del sink[:]
                return SymFile(SymStr([]), mode, sink)
            return SymFile(files[key], mode)
        return real_open(path, mode, *a, **k)

    return _open
