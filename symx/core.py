"""symx.core -- proxy-based symbolic execution of the *real* library functions under CPython.

The library code is not modelled: it is executed.  Inputs are proxy objects

  SymBool(e)   z3 Bool;  ``__bool__`` asks the path driver which way to go
  SymReal(e)   z3 Real;  arithmetic builds terms, comparisons give SymBool

and the driver explores every feasible path depth-first by re-executing the harness with a
recorded decision prefix.  A branch whose other side is infeasible under the path condition
is *forced* and costs no path.  Exhausting the schedule = all feasible paths explored.

Everything that would make the result unsound for the claim (a C boundary that needs a
concrete value, a solver `unknown`) raises `Unsupported`/`Inconclusive`, which derive from
BaseException because the library has `except ValueError/KeyError/Exception` handlers on the
paths we execute.
"""
from __future__ import annotations

import math as _math
import time
import types
from fractions import Fraction
from typing import Any, Callable, List, Optional

import z3


class Unsupported(BaseException):
    """A value had to become concrete (C boundary) or a construct is outside the model."""


class Inconclusive(BaseException):
    """The solver answered unknown."""


class PathLimit(BaseException):
    pass


class Stats:
    def __init__(self):
        self.paths = 0
        self.forks = 0
        self.forced = 0
        self.sat = 0
        self.unsat = 0
        self.unknown = 0
        self.solver_s = 0.0
        self.max_query_s = 0.0
        self.cvc5_checked = 0
        self.cvc5_agree = 0
        self.cvc5_disagree = 0
        self.abstract_unsat = 0

    def add(self, o: "Stats"):
        for k in ("paths", "forks", "forced", "sat", "unsat", "unknown", "cvc5_checked", "cvc5_agree", "cvc5_disagree",
                  "abstract_unsat"):
            setattr(self, k, getattr(self, k) + getattr(o, k))
        self.solver_s += o.solver_s
        self.max_query_s = max(self.max_query_s, o.max_query_s)

    def as_dict(self):
        return {
            "paths": self.paths,
            "forked_branches": self.forks,
            "forced_branches": self.forced,
            "solver_sat": self.sat,
            "solver_unsat": self.unsat,
            "solver_unknown": self.unknown,
            "solver_seconds": round(self.solver_s, 3),
            "slowest_query_seconds": round(self.max_query_s, 3),
            "discharged_by_linear_abstraction": self.abstract_unsat,
            "cvc5_cross_checked": self.cvc5_checked,
            "cvc5_agree": self.cvc5_agree,
            "cvc5_disagree": self.cvc5_disagree,
        }


class Ctx:
    """One path.

    Decisions are identified by the (hash-consed) z3 term they are about, not by their
    position in the run: the library iterates over sets of objects hashed by identity
    (NumericalExpressionTree, GroundedEffect), so two executions of the same harness may ask
    the same questions in a different order.  A scheduled path is therefore a *set* of
    answered questions; a re-execution answers those as recorded, decides new ones, and
    schedules the flip of every new two-sided decision together with everything answered
    before it in this run.  Every total assignment consistent with the scheduled set either
    equals this run or first differs from it at one of those decisions, so the exploration is
    exhaustive whatever the order (duplicates are possible, omissions are not)."""

    cur: Optional["Ctx"] = None

    def __init__(self, solver: z3.Solver, fixed: dict, stats: Stats, timeout_ms: int):
        self.solver = solver
        self.fixed = fixed  # ast id -> (expr, taken)
        self.stats = stats
        self.new: dict = {}
        self.trail: List[tuple] = []  # (expr, taken, alt_feasible) for new decisions
        self.pc: List[z3.BoolRef] = []
        self.model: Optional[z3.ModelRef] = None
        self.timeout_ms = timeout_ms
        self.printed: List[tuple] = []  # (z3 real expr, tag) for canonical placeholders
        self.canonical_tags = False
        self.tag_registry: dict = {}
        self.notes: dict = {}
        for e, taken in fixed.values():
            self.pc.append(e if taken else z3.Not(e))
        if self.pc:
            solver.add(*self.pc)

    # -- solver plumbing ---------------------------------------------------------------
    def check(self, *extra, expect_unsat: bool = False) -> str:
        """expect_unsat: an obligation (the usual answer is unsat).  If products/quotients of
        symbolic reals occur, the query is first tried with every maximal non-linear sub-term
        abstracted to a fresh variable (pure linear arithmetic: complete and fast); unsat of the
        abstraction implies unsat of the query.  Feasibility queries go to z3 directly and fall
        back to the abstraction only when z3 answers unknown."""
        t0 = time.time()
        r = None
        if expect_unsat:
            if abstract_unsat(list(self.solver.assertions()) + [_b(e) for e in extra], self.timeout_ms):
                r = z3.unsat
                self.stats.abstract_unsat = getattr(self.stats, "abstract_unsat", 0) + 1
        if r is None:
            r = self.solver.check(*extra)
            if r == z3.unknown and not expect_unsat:
                if abstract_unsat(list(self.solver.assertions()) + [_b(e) for e in extra], self.timeout_ms):
                    r = z3.unsat
        dt = time.time() - t0
        st = self.stats
        st.solver_s += dt
        st.max_query_s = max(st.max_query_s, dt)
        if expect_unsat and CVC5_EVERY[0] and r != z3.unknown:
            _CVC5_COUNT[0] += 1
            if _CVC5_COUNT[0] % CVC5_EVERY[0] == 0:
                other = cvc5_check(list(self.solver.assertions()) + [_b(e) for e in extra])
                st.cvc5_checked += 1
                if other is None:
                    pass  # cvc5 unknown / timeout: no information
                elif other == ("sat" if r == z3.sat else "unsat"):
                    st.cvc5_agree += 1
                else:
                    st.cvc5_disagree += 1
                    raise Inconclusive(f"cvc5 answers {other} where z3 answers {r}")
        if r == z3.sat:
            st.sat += 1
            return "sat"
        if r == z3.unsat:
            st.unsat += 1
            return "unsat"
        st.unknown += 1
        return "unknown"

    def add(self, c):
        """Add a side constraint (definition of a fresh variable, an assumption already known
        to be satisfiable) to the path condition."""
        self.solver.add(c)
        self.pc.append(c)
        self.model = None

    def assume(self, expr) -> bool:
        """Add an assumption to the path condition; False if it makes the path infeasible."""
        expr = _b(expr)
        self.add(expr)
        r = self.check()
        if r == "unknown":
            raise Inconclusive("assume")
        if r == "sat":
            self.model = self.solver.model()
        return r == "sat"

    def decide(self, expr: z3.BoolRef) -> bool:
        expr = z3.simplify(expr)
        if z3.is_true(expr):
            return True
        if z3.is_false(expr):
            return False
        if z3.is_not(expr):
            return not self.decide(expr.arg(0))
        key = expr.get_id()
        if key in self.fixed:
            return self.fixed[key][1]
        if key in self.new:
            return self.new[key][1]
        side = None
        if self.model is not None:
            v = self.model.eval(expr, model_completion=True)
            if z3.is_true(v):
                side = True
            elif z3.is_false(v):
                side = False
        if side is None:
            r = self.check(expr)
            if r == "unknown":
                raise Inconclusive("decide")
            if r == "sat":
                side = True
                self.model = self.solver.model()
            else:
                r2 = self.check(z3.Not(expr))
                if r2 == "unknown":
                    raise Inconclusive("decide")
                if r2 != "sat":
                    raise Unsupported("infeasible path condition")
                self.model = self.solver.model()
                self.stats.forced += 1
                self._record(key, expr, False, False)
                return False
        r = self.check(z3.Not(expr) if side else expr)
        if r == "unknown":
            raise Inconclusive("decide")
        alt = r == "sat"
        if alt:
            self.stats.forks += 1
        else:
            self.stats.forced += 1
        self._record(key, expr, side, alt)
        return side

    def _record(self, key, expr, side, alt):
        self.new[key] = (expr, side)
        self.trail.append((key, expr, side, alt))
        c = expr if side else z3.Not(expr)
        self.pc.append(c)
        self.solver.add(c)

    # -- queries for harnesses ---------------------------------------------------------
    def valid(self, post) -> Optional[z3.ModelRef]:
        """None if pc => post is valid; otherwise a model of pc and not post."""
        post = _b(post)
        r = self.check(z3.Not(post), expect_unsat=True)
        if r == "unknown":
            raise Inconclusive("obligation")
        if r == "unsat":
            return None
        return self.solver.model()

    def feasible(self, extra) -> bool:
        r = self.check(_b(extra))
        if r == "unknown":
            raise Inconclusive("feasible")
        return r == "sat"


import os as _os

def task_budget():
    """wall-time budget of one call-level task (env VERIF_TASK_BUDGET_S, set per tier by checks.main)"""
    return float(_os.environ.get("VERIF_TASK_BUDGET_S", "0") or 0) or None


CVC5_EVERY = [int(_os.environ.get("VERIF_CVC5_EVERY", "0") or 0)]  # cross-check every n-th obligation with cvc5 (0 = off)
_CVC5_COUNT = [0]


def cvc5_check(assertions, timeout_ms=10000):
    """Second opinion: the same query, printed as SMT-LIB2 by z3 and decided by cvc5.  Returns 'sat', 'unsat' or None."""
    try:
        import cvc5
    except ImportError:
        return None
    s = z3.Solver()
    for a in assertions:
        s.add(a)
    text = s.to_smt2()
    try:
        slv = cvc5.Solver()
        slv.setOption("tlimit-per", str(timeout_ms))
        slv.setLogic("ALL")
        p = cvc5.InputParser(slv)
        p.setStringInput(cvc5.InputLanguage.SMT_LIB_2_6, text, "obligation")
        sm = p.getSymbolManager()
        res = None
        while True:
            cmd = p.nextCommand()
            if cmd.isNull():
                break
            out = str(cmd.invoke(slv, sm)).strip()
            if out in ("sat", "unsat", "unknown"):
                res = out
        return res if res in ("sat", "unsat") else None
    except Exception:  # noqa  (parse error, unsupported construct): no information
        return None


NONLINEAR = [False]  # set as soon as a product/quotient of two non-constant reals is built


def _is_num(e) -> bool:
    return z3.is_rational_value(e) or z3.is_int_value(e) or z3.is_algebraic_value(e)


def _collect_nonlinear(e, out: dict, seen: set):
    i = e.get_id()
    if i in seen:
        return
    seen.add(i)
    if z3.is_app(e):
        k = e.decl().kind()
        if k == z3.Z3_OP_MUL:
            if sum(0 if _is_num(a) else 1 for a in e.children()) >= 2:
                out[i] = e
                return
        elif k in (z3.Z3_OP_DIV, z3.Z3_OP_IDIV):
            if not _is_num(e.arg(1)):
                out[i] = e
                return
        elif k == z3.Z3_OP_POWER:
            out[i] = e
            return
        for c in e.children():
            _collect_nonlinear(c, out, seen)


def abstract_unsat(assertions, timeout_ms=5000) -> bool:
    """True iff the conjunction is unsat after replacing every maximal non-linear sub-term by a
    fresh real variable (equal terms get the same variable: z3 terms are hash-consed)."""
    terms: dict = {}
    seen: set = set()
    for a in assertions:
        _collect_nonlinear(a, terms, seen)
    if not terms:
        return False
    subs = [(t, z3.Real(f"nl!{i}")) for i, t in terms.items()]
    s = z3.Solver()
    s.set("timeout", min(timeout_ms, 5000))
    for a in assertions:
        s.add(z3.substitute(a, *subs))
    return s.check() == z3.unsat


def prove_equal(ctx: "Ctx", a, b) -> Optional[z3.ModelRef]:
    """None if pc => a == b; a model of pc and a != b otherwise (Inconclusive on unknown)."""
    if a.eq(b):
        return None
    if z3.is_true(z3.simplify(a == b)):
        return None
    r = ctx.check(a != b, expect_unsat=True)
    if r == "unsat":
        return None
    if r == "unknown":
        raise Inconclusive("equality obligation")
    return ctx.solver.model()


class PathResult:
    __slots__ = ("kind", "value", "pc", "ctx")

    def __init__(self, kind, value, pc, ctx):
        self.kind, self.value, self.pc, self.ctx = kind, value, pc, ctx


def explore(
    fn: Callable[[Ctx], Any],
    on_path: Callable[[Ctx, PathResult], Any],
    stats: Optional[Stats] = None,
    max_paths: int = 100000,
    timeout_ms: int = 60000,
    catch=(Exception,),
    logic: Optional[str] = None,
    time_budget_s: Optional[float] = None,
) -> Stats:
    """Run `fn(ctx)` along every feasible path; `on_path(ctx, result)` is called while the
    path's constraints are still asserted in the solver, so it can discharge obligations."""
    stats = stats if stats is not None else Stats()
    solver = z3.Solver() if logic is None else z3.SolverFor(logic)
    solver.set("timeout", timeout_ms)
    pending: List[dict] = [{}]
    n = 0
    t_start = time.time()
    while pending:
        fixed = pending.pop()
        n += 1
        if n > max_paths:
            raise PathLimit(f"more than {max_paths} paths")
        if time_budget_s and time.time() - t_start > time_budget_s:
            raise PathLimit(f"time budget of {time_budget_s}s per task exhausted after {n - 1} paths")
        solver.push()
        ctx = Ctx(solver, fixed, stats, timeout_ms)
        Ctx.cur = ctx
        try:
            try:
                res = PathResult("ok", fn(ctx), None, ctx)
            except catch as e:  # library-level exception = an outcome of the path
                if isinstance(e, (TypeError, AttributeError)) and any(
                        k in str(e) for k in ("SymReal", "SymBool", "SymStr", "SymChar", "FinStr", "SymFile")):
                    # the code did something with a proxy that the proxy does not model: not a library outcome
                    raise Unsupported(f"proxy operation not modelled: {type(e).__name__}: {e}")
                res = PathResult("exc", e, None, ctx)
            res.pc = list(ctx.pc)
            stats.paths += 1
            acc = dict(fixed)
            for key, expr, side, alt in ctx.trail:
                if alt:
                    nxt = dict(acc)
                    nxt[key] = (expr, not side)
                    pending.append(nxt)
                acc[key] = (expr, side)
            on_path(ctx, res)
        finally:
            Ctx.cur = None
            solver.pop()
    return stats


# --------------------------------------------------------------------------------------
# proxies
# --------------------------------------------------------------------------------------
def _b(x):
    if isinstance(x, SymBool):
        return x.e
    if isinstance(x, z3.BoolRef):
        return x
    return z3.BoolVal(bool(x))


def exact(x) -> z3.ArithRef:
    """z3 Real for a Python number with its *exact* rational value (floats are dyadic)."""
    if isinstance(x, bool):
        return z3.RealVal(int(x))
    if isinstance(x, int):
        return z3.RealVal(x)
    if isinstance(x, Fraction):
        return z3.RealVal(x.numerator) / z3.RealVal(x.denominator) if x.denominator != 1 else z3.RealVal(x.numerator)
    if isinstance(x, float):
        if x != x or x in (float("inf"), float("-inf")):
            raise Unsupported("nan/inf")
        f = Fraction(x)
        if f.denominator == 1:
            return z3.RealVal(f.numerator)
        return z3.Q(f.numerator, f.denominator)
    raise Unsupported(f"arith with {type(x)}")


def _r(x):
    if isinstance(x, SymReal):
        return x.e
    if isinstance(x, z3.ArithRef):
        return x
    return exact(x)


class SymBool:
    __slots__ = ("e",)

    def __init__(self, e):
        self.e = e

    def __bool__(self):
        return Ctx.cur.decide(self.e)

    def __eq__(self, o):
        if isinstance(o, (SymBool, bool)):
            return SymBool(self.e == _b(o))
        return False

    def __ne__(self, o):
        if isinstance(o, (SymBool, bool)):
            return SymBool(self.e != _b(o))
        return True

    def __and__(self, o):
        return SymBool(z3.And(self.e, _b(o)))

    __rand__ = __and__

    def __or__(self, o):
        return SymBool(z3.Or(self.e, _b(o)))

    __ror__ = __or__

    def __invert__(self):
        return SymBool(z3.Not(self.e))

    def __hash__(self):
        raise Unsupported("hash of symbolic bool")

    def __repr__(self):
        return f"SymBool({self.e})"


_TAGN = [0]


class SymReal:
    """A real number as a z3 term.  Mathematical reals: no rounding, overflow, NaN, -0.0."""

    __slots__ = ("e", "_tag")

    def __init__(self, e):
        self.e = e
        self._tag = None

    def _bin(self, o, f):
        try:
            return SymReal(f(self.e, _r(o)))
        except Unsupported:
            return NotImplemented

    def __add__(self, o):
        return self._bin(o, lambda a, b: a + b)

    def __radd__(self, o):
        return self._bin(o, lambda a, b: b + a)

    def __sub__(self, o):
        return self._bin(o, lambda a, b: a - b)

    def __rsub__(self, o):
        return self._bin(o, lambda a, b: b - a)

    def __mul__(self, o):
        if isinstance(o, SymReal):
            NONLINEAR[0] = True
        return self._bin(o, lambda a, b: a * b)

    def __rmul__(self, o):
        return self._bin(o, lambda a, b: b * a)

    def __truediv__(self, o):
        try:
            d = _r(o)
        except Unsupported:
            return NotImplemented
        if Ctx.cur.decide(d == 0):
            raise ZeroDivisionError("float division by zero")
        if isinstance(o, SymReal):
            NONLINEAR[0] = True
        return SymReal(self.e / d)

    def __rtruediv__(self, o):
        try:
            n = _r(o)
        except Unsupported:
            return NotImplemented
        if Ctx.cur.decide(self.e == 0):
            raise ZeroDivisionError("float division by zero")
        NONLINEAR[0] = True
        return SymReal(n / self.e)

    def __neg__(self):
        return SymReal(-self.e)

    def __pos__(self):
        return self

    def __abs__(self):
        return SymReal(z3.If(self.e >= 0, self.e, -self.e))

    def _cmp(self, o, f):
        try:
            return SymBool(f(self.e, _r(o)))
        except Unsupported:
            return NotImplemented

    def __lt__(self, o):
        return self._cmp(o, lambda a, b: a < b)

    def __le__(self, o):
        return self._cmp(o, lambda a, b: a <= b)

    def __gt__(self, o):
        return self._cmp(o, lambda a, b: a > b)

    def __ge__(self, o):
        return self._cmp(o, lambda a, b: a >= b)

    def __eq__(self, o):
        try:
            return SymBool(self.e == _r(o))
        except Unsupported:
            return False

    def __ne__(self, o):
        try:
            return SymBool(self.e != _r(o))
        except Unsupported:
            return True

    __hash__ = object.__hash__

    def is_integer(self):
        return SymBool(z3.IsInt(self.e))

    def __round__(self, ndigits=None):
        return rounded_to_digits(self, 0 if ndigits is None else ndigits)

    def __trunc__(self):
        return sym_int(self)

    def __floor__(self):
        ctx = Ctx.cur
        k = z3.Int(f"fl!{_content_id(self.e)}")
        ctx.add(z3.And(z3.ToReal(k) <= self.e, self.e < z3.ToReal(k) + 1))
        return SymReal(z3.ToReal(k))

    def __ceil__(self):
        ctx = Ctx.cur
        k = z3.Int(f"ce!{_content_id(self.e)}")
        ctx.add(z3.And(z3.ToReal(k) >= self.e, self.e > z3.ToReal(k) - 1))
        return SymReal(z3.ToReal(k))

    def __float__(self):
        raise Unsupported("float() of a symbolic real (C boundary)")

    def __int__(self):
        raise Unsupported("int() of a symbolic real (C boundary)")

    __index__ = __int__

    def __bool__(self):
        return Ctx.cur.decide(self.e != 0)

    # -- number -> text: an opaque placeholder token ------------------------------------
    def tag(self) -> str:
        ctx = Ctx.cur
        if self._tag is not None and (ctx is None or self._tag in ctx.tag_registry or not ctx.canonical_tags):
            if ctx is not None:
                ctx.tag_registry[self._tag] = self
            return self._tag
        if ctx is not None and ctx.canonical_tags:
            # "repr is injective on values and float(repr(x)) == x": equal values print alike
            for e, t in ctx.printed:
                if ctx.decide(self.e == e):
                    self._tag = t
                    return t
        _TAGN[0] += 1
        self._tag = f"#r{_TAGN[0]}#"
        if ctx is not None:
            ctx.printed.append((self.e, self._tag))
            ctx.tag_registry[self._tag] = self
        return self._tag

    def __str__(self):
        return self.tag()

    __repr__ = __str__

    def __format__(self, spec):
        if spec in ("", "s", "r"):
            return self.tag()
        # ".Nf": a fresh real r with r*10^N integral and |r - x| <= 1/2 * 10^-N
        if len(spec) >= 3 and spec[0] == "." and spec[-1] == "f" and spec[1:-1].isdigit():
            n = int(spec[1:-1])
            return rounded_to_digits(self, n).tag()
        # "g" / ".Pg" / "e" / ".Pe": P significant digits (default 6 resp. P+1 for e): modelled as a sound
        # over-approximation -- some real within half a unit of the P-th significant digit, i.e. |r - x| <= |x| * 10^(1-P) / 2
        if spec and spec[-1] in "gGeE" and (len(spec) == 1 or (spec[0] == "." and spec[1:-1].isdigit())):
            p_ = 6 if len(spec) == 1 else int(spec[1:-1])
            if spec[-1] in "eE":
                p_ += 1
            return rounded_to_significant(self, max(p_, 1)).tag()
        raise Unsupported(f"format spec {spec!r} on symbolic real")


_FRESH = [0]


def fresh_real(prefix="r") -> z3.ArithRef:
    _FRESH[0] += 1
    return z3.Real(f"{prefix}!{_FRESH[0]}")


def fresh_int(prefix="k") -> z3.ArithRef:
    _FRESH[0] += 1
    return z3.Int(f"{prefix}!{_FRESH[0]}")


def _content_id(e) -> str:
    import hashlib

    return hashlib.md5(e.sexpr().encode()).hexdigest()[:16]


def rounded_to_digits(x: SymReal, n: int) -> SymReal:
    """Model of '{:.Nf}'.format(x) read back as a number: some multiple of 10^-N nearest to x
    (ties unconstrained: either neighbour)."""
    ctx = Ctx.cur
    k = z3.Int(f"rk!{_content_id(x.e)}!{n}")  # content-derived name: stable across re-executions
    scale = 10 ** n
    r = z3.ToReal(k) / scale
    ctx.add(z3.And(2 * scale * (r - x.e) <= 1, 2 * scale * (x.e - r) <= 1))
    return SymReal(r)


def rounded_to_significant(x: SymReal, p: int) -> SymReal:
    """Over-approximating model of '{:.Pg}'.format(x) read back as a number: a real within half a unit of the P-th
    significant digit of x (relative error at most 10^(1-P)/2); every value the real formatting can produce is allowed."""
    ctx = Ctx.cur
    r = z3.Real(f"rs!{_content_id(x.e)}!{p}")
    ax = z3.If(x.e >= 0, x.e, -x.e)
    bound = ax / (2 * 10 ** (p - 1))
    ctx.add(z3.And(r - x.e <= bound, x.e - r <= bound))
    return SymReal(r)


def sym_round(x, ndigits=None):
    if not isinstance(x, SymReal):
        return round(x) if ndigits is None else round(x, ndigits)
    n = 0 if ndigits is None else ndigits
    return rounded_to_digits(x, n)


def sym_float(x):
    if isinstance(x, SymReal):
        return x
    if isinstance(x, str) and x.startswith("#r") and Ctx.cur is not None and x in Ctx.cur.tag_registry:
        return Ctx.cur.tag_registry[x]
    return float(x)


def sym_int(x, *a):
    if isinstance(x, SymReal):
        # truncation toward zero as a fresh Int
        ctx = Ctx.cur
        if ctx.decide(z3.IsInt(x.e)):
            return SymReal(x.e)  # int() of an integral value is the value itself
        k = z3.Int(f"ti!{_content_id(x.e)}")
        c = z3.If(x.e >= 0, z3.And(z3.ToReal(k) <= x.e, x.e < z3.ToReal(k) + 1),
                  z3.And(z3.ToReal(k) >= x.e, x.e > z3.ToReal(k) - 1))
        ctx.add(c)
        return SymReal(z3.ToReal(k))
    return int(x, *a)


def isclose(a, b, *, rel_tol=1e-09, abs_tol=0.0):
    """CPython's documented formula: |a-b| <= max(rel_tol*max(|a|,|b|), abs_tol)."""
    if not isinstance(a, SymReal) and not isinstance(b, SymReal):
        return _math.isclose(a, b, rel_tol=rel_tol, abs_tol=abs_tol)
    a, b = _r(a), _r(b)
    at = _r(abs_tol)
    d = a - b
    if not isinstance(rel_tol, SymReal) and rel_tol == 0:
        return SymBool(z3.And(d <= at, -d <= at))

    def ab(x):
        return z3.If(x >= 0, x, -x)

    mx = z3.If(ab(a) >= ab(b), ab(a), ab(b))
    tol_r = _r(rel_tol) * mx
    tol = z3.If(tol_r >= at, tol_r, at)
    return SymBool(ab(d) <= tol)


class MathShim(types.ModuleType):
    def __init__(self):
        super().__init__("math")
        self.__dict__.update(_math.__dict__)
        self.isclose = isclose


def zval(model: z3.ModelRef, e) -> Fraction:
    v = model.eval(e, model_completion=True)
    if z3.is_rational_value(v):
        return Fraction(v.numerator_as_long(), v.denominator_as_long())
    if z3.is_algebraic_value(v):
        a = v.approx(30)
        return Fraction(a.numerator_as_long(), a.denominator_as_long())
    if z3.is_int_value(v):
        return Fraction(v.as_long())
    raise Unsupported(f"cannot read model value {v}")
