"""symx.rex -- a leftmost / greedy / backtracking regex matcher over SymStr.

Driven by `re._parser.parse(pattern)` of the pattern *as found in the library at run time*; it
supports exactly the constructs that occur in /repo (LITERAL, NOT_LITERAL, IN with ranges,
categories and negation, ANY, MAX_REPEAT/MIN_REPEAT, SUBPATTERN, AT, BRANCH) and the entry points
used there (sub, finditer, search, findall, match, compile).  Anything else raises Unsupported
(inconclusive, never a pass).  Every character test on a symbolic character is a fork decided by
the solver; concrete characters cost nothing.  When no argument is a SymStr the real `re` is used.
"""
import re as _re
import types

try:
    import re._parser as sp
    import re._constants as sc
except ImportError:  # python < 3.11
    import sre_parse as sp
    import sre_constants as sc

import z3

from .core import SymBool, Unsupported
from .text import SymStr, SymChar, WS


def _test(c: SymChar, pred_concrete, pred_z3):
    if isinstance(c.e, int):
        return pred_concrete(c.e)
    return bool(SymBool(pred_z3(c.e)))


def _cat_c(code, cat):
    ch = chr(code)
    if cat == sc.CATEGORY_DIGIT:
        return 48 <= code <= 57
    if cat == sc.CATEGORY_NOT_DIGIT:
        return not (48 <= code <= 57)
    if cat == sc.CATEGORY_SPACE:
        return code in WS
    if cat == sc.CATEGORY_NOT_SPACE:
        return code not in WS
    if cat == sc.CATEGORY_WORD:
        return ch.isalnum() or ch == "_"
    if cat == sc.CATEGORY_NOT_WORD:
        return not (ch.isalnum() or ch == "_")
    raise Unsupported(f"category {cat}")


def _cat_z(e, cat):
    if cat == sc.CATEGORY_DIGIT:
        return z3.And(e >= 48, e <= 57)
    if cat == sc.CATEGORY_NOT_DIGIT:
        return z3.Not(z3.And(e >= 48, e <= 57))
    if cat == sc.CATEGORY_SPACE:
        return z3.Or([e == w for w in WS])
    if cat == sc.CATEGORY_NOT_SPACE:
        return z3.Not(z3.Or([e == w for w in WS]))
    word = z3.Or(z3.And(e >= 48, e <= 57), z3.And(e >= 65, e <= 90), z3.And(e >= 97, e <= 122), e == 95)
    if cat == sc.CATEGORY_WORD:
        return word
    if cat == sc.CATEGORY_NOT_WORD:
        return z3.Not(word)
    raise Unsupported(f"category {cat}")


def _in_c(code, items):
    neg = False
    hit = False
    for op, av in items:
        if op == sc.NEGATE:
            neg = True
        elif op == sc.LITERAL:
            hit = hit or code == av
        elif op == sc.RANGE:
            hit = hit or av[0] <= code <= av[1]
        elif op == sc.CATEGORY:
            hit = hit or _cat_c(code, av)
        else:
            raise Unsupported(f"IN item {op}")
    return hit != neg


def _in_z(e, items):
    neg = False
    alts = []
    for op, av in items:
        if op == sc.NEGATE:
            neg = True
        elif op == sc.LITERAL:
            alts.append(e == av)
        elif op == sc.RANGE:
            alts.append(z3.And(e >= av[0], e <= av[1]))
        elif op == sc.CATEGORY:
            alts.append(_cat_z(e, av))
        else:
            raise Unsupported(f"IN item {op}")
    r = z3.Or(alts) if alts else z3.BoolVal(False)
    return z3.Not(r) if neg else r


class _Matcher:
    def __init__(self, s: SymStr, flags: int):
        self.cs = s.cs
        self.s = s
        self.multiline = bool(flags & _re.MULTILINE)
        self.dotall = bool(flags & _re.DOTALL)
        if flags & _re.IGNORECASE:
            raise Unsupported("IGNORECASE")

    def m(self, items, i, pos, groups, k):
        if i == len(items):
            return k(pos, groups)
        op, av = items[i]
        cs = self.cs
        if op in (sc.LITERAL, sc.NOT_LITERAL, sc.IN, sc.ANY):
            if pos >= len(cs):
                return None
            c = cs[pos]
            if op == sc.LITERAL:
                ok = _test(c, lambda x: x == av, lambda e: e == av)
            elif op == sc.NOT_LITERAL:
                ok = _test(c, lambda x: x != av, lambda e: e != av)
            elif op == sc.IN:
                ok = _test(c, lambda x: _in_c(x, av), lambda e: _in_z(e, av))
            else:
                ok = True if self.dotall else _test(c, lambda x: x != 10, lambda e: e != 10)
            if ok:
                return self.m(items, i + 1, pos + 1, groups, k)
            return None
        if op == sc.SUBPATTERN:
            gid, add_flags, del_flags, sub = av
            if add_flags or del_flags:
                raise Unsupported("inline flags")

            def after(p2, g2):
                g3 = dict(g2)
                if gid is not None:
                    g3[gid] = (pos, p2)
                return self.m(items, i + 1, p2, g3, k)

            return self.m(list(sub), 0, pos, groups, after)
        if op in (sc.MAX_REPEAT, sc.MIN_REPEAT):
            lo, hi, sub = av
            sub = list(sub)
            greedy = op == sc.MAX_REPEAT

            def rep(count, p, g):
                def more():
                    if hi != sc.MAXREPEAT and count >= hi:
                        return None

                    def nxt(p2, g2):
                        if p2 == p:
                            return None
                        return rep(count + 1, p2, g2)

                    return self.m(sub, 0, p, g, nxt)

                def stop():
                    if count < lo:
                        return None
                    return self.m(items, i + 1, p, g, k)

                first, second = (more, stop) if greedy else (stop, more)
                r = first()
                return r if r is not None else second()

            return rep(0, pos, groups)
        if op == sc.AT:
            if av == sc.AT_BEGINNING:
                ok = pos == 0 or (self.multiline and _test(cs[pos - 1], lambda x: x == 10, lambda e: e == 10))
            elif av == sc.AT_BEGINNING_STRING:
                ok = pos == 0
            elif av == sc.AT_END:
                if pos == len(cs):
                    ok = True
                elif self.multiline:
                    ok = _test(cs[pos], lambda x: x == 10, lambda e: e == 10)
                else:
                    ok = pos == len(cs) - 1 and _test(cs[pos], lambda x: x == 10, lambda e: e == 10)
            elif av == sc.AT_END_STRING:
                ok = pos == len(cs)
            elif av in (sc.AT_BOUNDARY, sc.AT_NON_BOUNDARY):
                def is_word(i):
                    if i < 0 or i >= len(cs):
                        return False
                    return _test(cs[i], lambda x: _cat_c(x, sc.CATEGORY_WORD), lambda e: _cat_z(e, sc.CATEGORY_WORD))
                b = is_word(pos - 1) != is_word(pos)
                ok = b if av == sc.AT_BOUNDARY else not b
            else:
                raise Unsupported(f"AT {av}")
            return self.m(items, i + 1, pos, groups, k) if ok else None
        if op == sc.BRANCH:
            for alt in av[1]:
                r = self.m(list(alt) + items[i + 1:], 0, pos, groups, k)
                if r is not None:
                    return r
            return None
        raise Unsupported(f"regex op {op}")


class Match:
    def __init__(self, s: SymStr, span, groups):
        self.s, self._span, self.g = s, span, groups

    def group(self, n=0):
        if n == 0:
            a, b = self._span
        else:
            if n not in self.g:
                return None
            a, b = self.g[n]
        return self.s[a:b]

    def groups(self):
        n = max(self.g) if self.g else 0
        return tuple(self.group(i) for i in range(1, n + 1))

    def span(self, n=0):
        return self._span if n == 0 else self.g[n]

    def start(self, n=0):
        return self.span(n)[0]

    def end(self, n=0):
        return self.span(n)[1]


def _items(pattern, flags):
    if isinstance(pattern, _Compiled):
        return pattern.items, pattern.flags | flags
    p = sp.parse(pattern, flags)
    fl = flags | p.state.flags
    return list(p), fl


def _match_at(mt: _Matcher, items, pos):
    r = mt.m(items, 0, pos, {}, lambda p, g: (p, g))
    return r


def _symbolic(*xs):
    return any(isinstance(x, SymStr) for x in xs)


def finditer(pattern, s, flags=0, _pos=0, _endpos=None):
    """_pos/_endpos: the optional arguments of a COMPILED pattern's methods (the search starts at _pos, the string ends at
    _endpos; as in `re`, `^` still refers to the real start of the string / of a line)"""
    if not _symbolic(s):
        real = pattern.real if isinstance(pattern, _Compiled) else _re.compile(pattern, flags)
        return real.finditer(s, _pos, len(s) if _endpos is None else _endpos)
    if _endpos is not None:
        s = s[:_endpos]
    items, fl = _items(pattern, flags)
    mt = _Matcher(s, fl)
    out = []
    pos = max(0, int(_pos))
    n = len(s.cs)
    while pos <= n:
        r = _match_at(mt, items, pos)
        if r is None:
            pos += 1
            continue
        end, g = r
        out.append(Match(s, (pos, end), g))
        pos = end if end > pos else pos + 1
    return iter(out)


def search(pattern, s, flags=0, _pos=0, _endpos=None):
    if not _symbolic(s):
        real = pattern.real if isinstance(pattern, _Compiled) else _re.compile(pattern, flags)
        return real.search(s, _pos, len(s) if _endpos is None else _endpos)
    for m in finditer(pattern, s, flags, _pos, _endpos):
        return m
    return None


def match(pattern, s, flags=0):
    if not _symbolic(s):
        return (pattern.real if isinstance(pattern, _Compiled) else _re.compile(pattern, flags)).match(s)
    items, fl = _items(pattern, flags)
    r = _match_at(_Matcher(s, fl), items, 0)
    if r is None:
        return None
    return Match(s, (0, r[0]), r[1])


def findall(pattern, s, flags=0):
    if not _symbolic(s):
        return (pattern.real if isinstance(pattern, _Compiled) else _re.compile(pattern, flags)).findall(s)
    out = []
    for m in finditer(pattern, s, flags):
        gs = m.groups()
        out.append(m.group(0) if not gs else (gs[0] if len(gs) == 1 else gs))
    return out


def sub(pattern, repl, s, count=0, flags=0):
    if not _symbolic(s, repl):
        return (pattern.real if isinstance(pattern, _Compiled) else _re.compile(pattern, flags)).sub(repl, s, count)
    if not isinstance(repl, (str, SymStr)) or (isinstance(repl, str) and "\\" in repl):
        raise Unsupported("sub with callable / group references")
    if isinstance(s, str):
        s = SymStr.of(s)
    out = []
    last = 0
    for m in finditer(pattern, s, flags):
        a, b = m.span()
        out.extend(s.cs[last:a])
        out.extend(SymStr.of(repl).cs if isinstance(repl, str) else repl.cs)
        last = b
    out.extend(s.cs[last:])
    return SymStr(out)


class _Compiled:
    def __init__(self, pattern, flags=0):
        self.real = _re.compile(pattern, flags)
        p = sp.parse(pattern, flags)
        self.items = list(p)
        self.flags = flags | p.state.flags
        self.pattern = pattern

    def finditer(self, s, pos=0, endpos=None):
        return finditer(self, s, 0, pos, endpos)

    def search(self, s, pos=0, endpos=None):
        return search(self, s, 0, pos, endpos)

    def match(self, s):
        return match(self, s)

    def findall(self, s):
        return findall(self, s)

    def sub(self, repl, s, count=0):
        return sub(self, repl, s, count)


def compile(pattern, flags=0):  # noqa: A001
    return _Compiled(pattern, flags)


_ORIG = {}  # (module name, global name) -> the real compiled pattern


def install(mod, rexmod=None):
    """Point a library module at this matcher: its name `re`, and every *precompiled* pattern it keeps as a module
    global (compiled by the real `re` at import time, before any shim could be in place)."""
    mod.re = rexmod or module()
    def wrap(p):
        return _Compiled(p.pattern, p.flags & ~_re.UNICODE)

    for k, v in list(vars(mod).items()):
        if isinstance(v, _re.Pattern):
            _ORIG[(mod.__name__, k)] = v
            setattr(mod, k, wrap(v))
        elif isinstance(v, (list, tuple)) and v and all(isinstance(x, _re.Pattern) for x in v):
            # a module-level collection of precompiled patterns
            _ORIG[(mod.__name__, k)] = v
            setattr(mod, k, type(v)(wrap(x) for x in v))
        elif isinstance(v, dict) and v and all(isinstance(x, _re.Pattern) for x in v.values()):
            _ORIG[(mod.__name__, k)] = v
            setattr(mod, k, {kk: wrap(x) for kk, x in v.items()})


def uninstall(mod):
    mod.re = _re
    for (mn, k), v in list(_ORIG.items()):
        if mn == mod.__name__:
            setattr(mod, k, v)


def module() -> types.ModuleType:
    """A module-like object to install as the name `re` in a library module's namespace."""
    m = types.ModuleType("re")
    m.__dict__.update(_re.__dict__)
    m.finditer, m.search, m.match, m.findall, m.sub, m.compile = finditer, search, match, findall, sub, compile
    return m
