"""Re-run a recorded counterexample against the real, unshimmed library."""
import json


def run(prop: str, path: str) -> int:
    payload = json.load(open(path))
    kind = payload.get("kind")
    if kind == "callsym":
        from . import callsym
        out = callsym.replay_concrete(payload["task"], {a: True for a in payload["atoms_true"]},
                                      _full_fluents(payload))
        print(json.dumps(callsym._jsonable(out), indent=1))
        if out.get("disagree"):
            print(f"VIOLATION property={prop} replay={path}")
            return 1
        print("does not reproduce")
        return 0
    import importlib
    mod = importlib.import_module(f"checks.{prop.lower()}")
    return mod.replay(payload, path)


def _full_fluents(payload):
    from . import callsym
    prep = callsym.Prepared(payload["task"])
    fl = {f: 0.0 for f in prep.all_fluents}
    fl.update(payload.get("fluents", {}))
    return fl
