"""C02 -- an action is reported applicable exactly when its precondition is true.

Bounded symbolic execution of the real Operator.ground / is_applicable (GroundedPrecondition.*,
grounding_utils.*, numerical_expression.*, State.serialize) on a state whose atom membership
and fluent values are symbolic; per path z3 decides  pc => (result <=> pre_text(args)).
"""
import os
import sys
import time

from . import callsym, families, runner


def twins():
    from gen import programs as G
    out = []
    for pre in (["and", ["p", "?x"]], ["and", [">=", ["f", "?x"], ["g"]], ["not", ["q", "?x", "?y"]]],
                ["and", ["forall", ["?z", "-", "t1"], ["and", ["p", "?z"]]]]):
        text = G.domain_text([("act", G.PARAM_LISTS["P2"], pre, ["and"])], const=True)
        out.append(dict(domain_text=text, action="act", args=["o1", "o2"], objects=dict(G.OBJECTS),
                        mode="applicable", label="TWIN " + str(pre), cap=12, twin="never_applicable"))
    return out


FUNCTIONS = ["Operator.ground", "Operator.is_applicable", "GroundedPrecondition.ground_preconditions/_ground",
             "GroundedPrecondition._is_condition_applicable/_validate_predicates_hold/_validate_numeric_expression_hold/"
             "_validate_universal_precondition/_ground_universal_condition/_validate_equality_holds",
             "grounding_utils.ground_predicate/ground_numeric_calculation_tree",
             "numerical_expression.set_expression_value/evaluate_expression/calculate/COMPARISON_OPERATORS",
             "State.serialize", "ProblemParser.parse_grounded_predicate/parse_grounded_numeric_fluent (state construction)",
             "DomainParser.parse_domain (concrete)"]

SHIMS = ["math.isclose -> CPython's documented formula over reals (symx.core.isclose), installed as "
         "numerical_expression.math", "str()/format of a symbolic number -> opaque placeholder token"]


def main(tier: str) -> int:
    rep = runner.Report("C02", tier, "other")
    tasks = families.applicable_tasks(tier, runner.seed())
    n_first = len(tasks)
    tasks += families.applicable_again_tasks(tier, runner.seed())
    # type hierarchies of three levels declared children first, with objects of the deepest type (the range programs of C06)
    from . import c06
    tasks += [t for t in c06.range_tasks(tier) if t["mode"] == "applicable"]
    tw = twins()
    results = runner.pmap(callsym.run_task, tasks + tw, chunksize=4)
    summarize(rep, tasks, results[: len(tasks)], "applicable")
    for t, r in zip(tw, results[len(tasks):]):
        if r["outcome"] != "violation":
            rep.twins_failed.append(f"vacuity twin did not come back violated: {t['label']} -> {r['outcome']}")
    rep.coverage["vacuity_twins"] = {"run": len(tw), "violated_as_required": len(tw) - len(rep.twins_failed)}
    rep.coverage["functions_executed_symbolically"] = FUNCTIONS
    rep.coverage["shims"] = SHIMS
    rep.coverage["queried_after_another_state_by_the_same_operator_object"] = len(tasks) - n_first
    rep.coverage["bounds"] = {
        "second_query": "every fourth program with a numeric comparison is also queried by an operator object that has answered a query "
                        "about another state (same facts, independent fluent values) before",
        "programs": "curated core (every construct alone and pairs) + VERIF_SEED-sampled preconditions: conjunctions of "
                    "<=3 literals, one nested and/or of <=3 literals, one forall over t1/t3 with and/or body of <=2 literals; "
                    "numeric comparison literals with expression depth <=2",
        "argument_tuples_per_program": 3 if tier == "quick" else 4,
        "symbolic_atoms_cap": 9 if tier == "quick" else 12,
        "universe": "types t1 t2 t3<t1, constant k, objects o1 o2 o3 u1, predicates p q r s, functions f g h",
        "EPSILON": os.environ.get("EPSILON", "default 0.0001"),
        "outside": "float rounding/overflow/NaN (reals, not doubles); states with more relevant atoms than the cap "
                   "(counted as out_of_bound); formulas deeper than the bound; undefined fluents; division by zero",
    }
    rep.assumptions += ["every fluent is defined in the state", "no division by zero in the evaluated expressions",
                        "real arithmetic instead of IEEE doubles", "the oracle ref.sem (independent PDDL semantics)"]
    return rep.finish(total=len(tasks))


def summarize(rep: runner.Report, tasks, results, mode):
    from collections import Counter
    c = Counter()
    paths = obligations = 0
    agg = {k: 0 for k in runner.STAT_KEYS}
    agg.update({"solver_seconds": 0.0, "slowest_query_seconds": 0.0})
    nontrivial = set()
    samples = []
    unconfirmed = 0
    known = {k["id"]: k for k in runner.load_known(rep.prop)}
    for t, r in zip(tasks, results):
        c[r["outcome"]] += 1
        paths += r.get("paths", 0)
        obligations += r.get("obligations", 0)
        unconfirmed += r.get("unconfirmed", 0)
        st = r.get("stats") or {}
        for k in agg:
            if k == "slowest_query_seconds":
                agg[k] = max(agg[k], st.get(k, 0.0))
            else:
                agg[k] += st.get(k, 0)
        if r.get("paths", 0) >= 2:
            nontrivial.add((t["domain_text"], tuple(t["args"])))
        for fid, n in (r.get("attributed") or {}).items():
            if fid in known:
                rep.known(known[fid], n)
        if r["outcome"] == "violation":
            for cx in r["cex"][:1]:
                rep.violation(f"{t['label']} args={t['args']}: {cx['what']}",
                              {"property": rep.prop, "kind": "callsym",
                               "task": dict(t, other_fluents=r["other_fluents"]) if r.get("other_fluents") else t,
                               "atoms_true": cx["atoms_true"],
                               "fluents": cx["fluents"], "observed_vs_expected": cx["replay"]})
        elif r["outcome"] == "inconclusive":
            rep.inconclusive.append(f"{t['label']} {t['args']}: {r.get('detail')}")
        elif r["outcome"] == "error":
            rep.errors.append(f"{t['label']} {t['args']}: {r.get('detail')}")
        if len(samples) < 4 and r.get("paths", 0) >= 3 and r["outcome"] == "held":
            samples.append({"program": t["label"], "args": t["args"], "order": t.get("order"), "paths": r["paths"],
                            "symbolic_atoms": r.get("sym_atoms"), "obligations": r.get("obligations"),
                            "obligation_form": "pc /\\ not(result == oracle) unsat" if mode == "applicable" else
                            "pc /\\ pre /\\ consistent /\\ not(forall atoms, fluents: successor == oracle) unsat"})
    agg["solver_seconds"] = round(agg["solver_seconds"], 2)
    rep.coverage.update({
        "evaluations": len(tasks),
        "distinct_nontrivial": len(nontrivial),
        "rule": "one evaluation = one (program, argument tuple[, iteration order]) explored over all feasible paths of the "
                "real code; non-trivial = at least two feasible paths; distinct = distinct (domain text, arguments)",
        "samples": samples or [{"note": "no held multi-path sample"}],
        "outcomes": dict(c),
        "paths": paths,
        "obligations": obligations,
        "queries": agg,
        "unconfirmed_counterexamples": unconfirmed,
        "exhaustive": False,
    })
