"""C13 -- simplified numeric conditions are valid PDDL and mean the same as the originals.

Translation validation with SMT.  sympy cannot be executed symbolically (any proxy entering
sympify/mpmath is realised), so the simplifier's *inputs* are enumerated and every concrete
(input conditions, output text) pair is validated over **all real valuations of the fluents**:

  1. the output is read by the library's own tokenizer + construct_expression_tree and by ref;
     only binary + - * / may occur;
  2. both sides are put in sum-of-monomials form (exact rational algebra) with one unknown delta_i per numeral
     printed in the output, and z3 decides whether perturbations |delta_i| <= 1/2 * 10^-digits exist under which
     input and output are the same polynomial (a non-zero scale factor is allowed for equations; a term whose
     coefficient rounds to zero may be omitted);
  3. when nothing had to be rounded, z3 must also return unsat for  cond_in(v) != cond_out(v)
     (QF_NRA, denominators assumed non-zero) -- this is also the only mode for rational expressions;
  4. for a whole precondition:  /\\ in  <=>  /\\ out  (so an omitted condition is implied by the kept ones).
"""
import itertools
import json
import os
import random
import subprocess
import sys
import time
from fractions import Fraction

import z3

from . import lib, runner
from ref import sexpr

FLUENT_POOLS = [
    ["(f ?x)", "(g)", "(fuel-cost ?x)", "(load_limit ?x)"],
    ["(f2 a-1)", "(g)", "(h ?x ?y)", "(load_limit ?x)"],
    ["(fuel-cost ?x)", "(fuelcost ?x)", "(g)", "(f ?x)"],  # collide once ( ) - ? and blanks are deleted
    ["(a b)", "(ab)", "(f ?x)", "(g)"],
    ["(f ?x1)", "(f1 ?x)", "(h ?x ?y)", "(g)"],
    # fluents whose text, once the punctuation is deleted, is the name of a sympy function: fu, beta, gamma, zeta
    ["(f ?u)", "(beta ?x)", "(gamma)", "(zeta ?x)"],
]

SIGS = {"f": 1, "g": 0, "fuel-cost": 1, "load_limit": 1, "f2": 1, "h": 2, "fuelcost": 1, "a": 1, "ab": 0, "f1": 1,
        "beta": 1, "gamma": 0, "zeta": 1}


def functions():
    from pddl_plus_parser.models import PDDLFunction, PDDLType
    t = PDDLType("object")
    return {n: PDDLFunction(name=n, signature={f"?p{i}": t for i in range(k)}) for n, k in SIGS.items()}


def lib_tree(ast):
    from pddl_plus_parser.models import construct_expression_tree, NumericalExpressionTree
    return NumericalExpressionTree(construct_expression_tree(ast, functions()))


# ---------------------------------------------------------------------------------------------
# generation (trees as nested lists; numerals as strings)
# ---------------------------------------------------------------------------------------------
NICE = [False]


def coeff(rng):
    if NICE[0]:
        # whole-precondition cases are validated by an exact equivalence query: keep every derived
        # coefficient representable at >= 4 digits
        return rng.choice(["1", "2", "3", "5", "-1", "-2", "4", "0.5", "-0.5", "10"])
    k = rng.random()
    if k < 0.3:
        return str(rng.choice([1, 2, 3, 5, 7, 10, 13, -1, -2, -4]))
    if k < 0.6:
        return rng.choice(["0.5", "1.5", "0.25", "2.75", "-0.5", "0.71", "-0.53", "3.125", "0.0625", "12.5"])
    if k < 0.8:
        base = rng.choice([1, 2, 3, 10])
        return repr(base + rng.choice([1e-5, -1e-5]))
    return rng.choice(["0.00004", "0.0004", "0.004", "0.04", "100000", "0.3333", "0.6667"])


def monomial(rng, pool, maxdeg=3):
    deg = rng.choice([1, 1, 1, 2, 2, 3][: 2 * maxdeg])
    fs = [sexpr.read(rng.choice(pool)) for _ in range(deg)]
    m = fs[0]
    for f in fs[1:]:
        m = ["*", m, f]
    k = rng.random()
    if k < 0.1 and not NICE[0]:
        # a quotient of whole numbers that is no terminating decimal: sympy keeps it as an exact rational coefficient
        m = ["/", ["*", rng.choice(["1", "2", "13", "1000", "100000", "-7"]), m], rng.choice(["3", "7", "6", "9"])]
    elif k < 0.75:
        c = coeff(rng)
        m = ["*", c, m] if rng.random() < 0.5 else ["*", m, c]
    return m


def poly(rng, pool, nterms):
    e = monomial(rng, pool)
    for _ in range(nterms - 1):
        op = rng.choice(["+", "+", "-"])
        e = [op, e, monomial(rng, pool)] if rng.random() < 0.7 else [op, monomial(rng, pool), e]
    if rng.random() < 0.3:
        e = [rng.choice(["+", "-"]), e, coeff(rng)]
    return e


def expression(rng, pool, allow_div=True):
    e = poly(rng, pool, rng.choice([1, 2, 2, 3, 4]))
    k = rng.random()
    if allow_div and k < 0.08:
        e = ["/", e, rng.choice(["2", "4", "0.5"] if NICE[0] else ["2", "4", "0.5", "3", "7"])]
    elif allow_div and k < 0.14:
        e = ["/", rng.choice(["1", "2"]), sexpr.read(rng.choice(pool))]
    elif allow_div and k < 0.18:
        f = sexpr.read(rng.choice(pool))
        e = ["/", "1", ["*", f, f]]
    elif k < 0.3:
        e = ["*", e, ["+", sexpr.read(rng.choice(pool)), coeff(rng)]]
    return e


def condition(rng, pool, op=None):
    op = op or rng.choice(["<=", ">=", "<", ">", "="])
    lhs = expression(rng, pool)
    k = rng.random()
    if k < 0.4:
        rhs = coeff(rng)
    elif k < 0.5:
        rhs = "0"
    elif k < 0.75:
        rhs = sexpr.read(rng.choice(pool))
    else:
        rhs = poly(rng, pool, rng.choice([1, 2]))
    if isinstance(lhs, str):
        lhs = sexpr.read(rng.choice(pool))
    return [op, lhs, rhs]


def linear_equality(rng, pool):
    a, b = rng.sample(pool, 2)
    lhs = ["+", ["*", sexpr.read(a), rng.choice(["1", "2", "0.5"])] if rng.random() < 0.5 else sexpr.read(a),
           ["*", sexpr.read(b), rng.choice(["-1", "3", "0.5"])] if rng.random() < 0.5 else sexpr.read(b)]
    rhs = rng.choice(["0", "3", sexpr.read(rng.choice(pool)), ["+", "13", ["*", sexpr.read(b), "-0.5"]]])
    return ["=", lhs, rhs]


# ---------------------------------------------------------------------------------------------
# meaning of PDDL numeric text as z3 terms
# ---------------------------------------------------------------------------------------------
class Meaning:
    def __init__(self):
        self.vars = {}
        self.dens = []
        self.numerals = 0
        self.perturb = None  # when a list: every numeral read becomes (value + delta_i), delta_i recorded here
        self.amplification = Fraction(1)

    def note_output_shape(self, ast):
        """amplification factor for omitted near-zero terms: 1 for an expanded output; for a factored output
        (some product has a sum as operand) the sum of |numerals| + number of fluent leaves of the output"""
        factored = [False]
        total = [Fraction(0)]

        def has_sum(t):
            return not isinstance(t, str) and (t[0] in ("+", "-") or any(has_sum(x) for x in t[1:] if t[0] in ("*", "/")))

        def walk(t):
            if isinstance(t, str):
                try:
                    total[0] += abs(Fraction(t))
                except ValueError:
                    pass
                return
            if t and t[0] in SIGS:
                total[0] += 1
                return
            if t and t[0] == "*" and any(has_sum(x) for x in t[1:]):
                factored[0] = True
            for x in t[1:]:
                walk(x)

        walk(ast)
        if factored[0]:
            self.amplification = max(self.amplification, Fraction(1) + total[0])

    def var(self, ast):
        key = sexpr.render(ast)
        if key not in self.vars:
            self.vars[key] = z3.Real("v" + key)
        return self.vars[key]

    def expr(self, ast, strict_binary=False):
        if isinstance(ast, str):
            try:
                fr = Fraction(ast)
            except ValueError:
                raise BadOutput(f"leaf {ast!r} is neither a number nor a fluent")
            self.numerals += 1
            val = z3.Q(fr.numerator, fr.denominator) if fr.denominator != 1 else z3.RealVal(fr.numerator)
            if self.perturb is not None:
                dv = z3.Real(f"d!{len(self.perturb)}")
                self.perturb.append(dv)
                return val + dv
            return val
        if not ast:
            raise BadOutput("empty list")
        h = ast[0]
        if h in ("+", "-", "*", "/"):
            if len(ast) != 3:
                if strict_binary:
                    raise BadOutput(f"operator {h} with {len(ast) - 1} operands (only binary allowed)")
                raise BadOutput(f"arity of {h}")
            l, r = self.expr(ast[1], strict_binary), self.expr(ast[2], strict_binary)
            if h == "+":
                return l + r
            if h == "-":
                return l - r
            if h == "*":
                return l * r
            self.dens.append(r)
            return l / r
        if h in SIGS:
            if len(ast) - 1 != SIGS[h] or not all(isinstance(a, str) for a in ast[1:]):
                raise BadOutput(f"fluent {sexpr.render(ast)} with wrong arity")
            return self.var(ast)
        raise BadOutput(f"unknown operator or fluent {h!r}")

    def cond(self, ast, strict_binary=False):
        if isinstance(ast, str) or len(ast) != 3 or ast[0] not in ("<=", ">=", "<", ">", "="):
            raise BadOutput(f"not a comparison: {sexpr.render(ast) if not isinstance(ast, str) else ast}")
        l, r = self.expr(ast[1], strict_binary), self.expr(ast[2], strict_binary)
        return ast[0], l, r


class BadOutput(Exception):
    pass


class Poly(dict):
    """exact polynomial: {tuple(sorted variable names with multiplicity): Fraction}.  Variables are fluents and the
    rounding parameters d!i / s! ; used only to put both sides in sum-of-monomials form (exact rational algebra)."""

    @staticmethod
    def const(c):
        return Poly({(): Fraction(c)}) if c != 0 else Poly()

    @staticmethod
    def var(name):
        return Poly({(name,): Fraction(1)})

    def __add__(self, o):
        out = Poly(self)
        for k, v in o.items():
            nv = out.get(k, Fraction(0)) + v
            if nv == 0:
                out.pop(k, None)
            else:
                out[k] = nv
        return out

    def __neg__(self):
        return Poly({k: -v for k, v in self.items()})

    def __sub__(self, o):
        return self + (-o)

    def __mul__(self, o):
        out = {}
        for k1, v1 in self.items():
            for k2, v2 in o.items():
                k = tuple(sorted(k1 + k2))
                out[k] = out.get(k, Fraction(0)) + v1 * v2
        return Poly({k: v for k, v in out.items() if v != 0})

    def is_const(self):
        return all(k == () for k in self)


def poly_of(ast, perturb=None):
    """PDDL numeric AST -> Poly (None if it divides by a non-constant)."""
    if isinstance(ast, str):
        p = Poly.const(Fraction(ast))
        if perturb is not None:
            name = f"d!{len(perturb)}"
            perturb.append(name)
            p = p + Poly.var(name)
        return p
    h = ast[0]
    if h in SIGS:
        return Poly.var("v" + sexpr.render(ast))
    if h == "/" and perturb is not None:
        # a numeral divisor in the output is taken as printed (the simplifier's own output multiplies by a rounded reciprocal
        # instead; a quotient by a numeral only appears where a side of a comparison was copied unsimplified)
        l, r = poly_of(ast[1], perturb), poly_of(ast[2], None)
        if l is None or r is None or not r.is_const() or r.get((), 0) == 0:
            return None
        return l * Poly.const(1 / r[()])
    l, r = poly_of(ast[1], perturb), poly_of(ast[2], perturb)
    if l is None or r is None:
        return None
    if h == "+":
        return l + r
    if h == "-":
        return l - r
    if h == "*":
        return l * r
    if h == "/":
        if r.is_const() and r.get((), 0) != 0 and perturb is None:
            return l * Poly.const(1 / r[()])
        return None
    raise BadOutput(h)


def split_params(p: Poly):
    """group a Poly by its fluent part: {fluent monomial: z3 term in the parameters}"""
    out = {}
    for k, c in p.items():
        fl = tuple(x for x in k if not (x.startswith("d!") or x.startswith("s!")))
        term = z3.Q(c.numerator, c.denominator)
        for x in k:
            if x.startswith("d!") or x.startswith("s!"):
                term = term * z3.Real(x)
        out[fl] = out[fl] + term if fl in out else term
    return out


def rel(op, l, r):
    return {"<=": l <= r, ">=": l >= r, "<": l < r, ">": l > r, "=": l == r}[op]


def _num(e):
    if z3.is_rational_value(e):
        return Fraction(e.numerator_as_long(), e.denominator_as_long())
    if z3.is_int_value(e):
        return Fraction(e.as_long())
    return None


def monomials(e):
    """z3 term -> {tuple(sorted fluent-variable names with multiplicity): coefficient}; the coefficient is a
    Fraction, or a z3 term when rounding parameters (variables named d!i / s!) occur in it.  None if the term is
    not a polynomial in the fluent variables.  The sum-of-monomials normal form is computed by z3's rewriter."""
    e = z3.simplify(e, som=True, mul_to_power=False, expand_power=True, hoist_mul=False, arith_lhs=False)
    out = {}

    def term(t):
        c = [Fraction(1)]
        vs = []
        params = []

        def fac(x):
            v = _num(x)
            if v is not None:
                c[0] *= v
                return True
            if z3.is_app(x):
                k = x.decl().kind()
                if k == z3.Z3_OP_MUL:
                    return all(fac(y) for y in x.children())
                if k == z3.Z3_OP_UMINUS:
                    c[0] *= -1
                    return fac(x.arg(0))
                if k == z3.Z3_OP_POWER:
                    b, p = x.arg(0), _num(x.arg(1))
                    if p is None or p.denominator != 1 or p < 0 or not z3.is_const(b):
                        return False
                    for _ in range(int(p)):
                        fac(b)
                    return True
                if k == z3.Z3_OP_UNINTERPRETED and x.num_args() == 0:
                    name = str(x)
                    if name.startswith("d!") or name.startswith("s!"):
                        params.append(x)
                    else:
                        vs.append(name)
                    return True
            return False

        if not fac(t):
            return False
        key = tuple(sorted(vs))
        coef = c[0]
        if params:
            ce = z3.Q(coef.numerator, coef.denominator)
            for p_ in params:
                ce = ce * p_
            coef = ce
        prev = out.get(key)
        if prev is None:
            out[key] = coef
        elif isinstance(prev, Fraction) and isinstance(coef, Fraction):
            out[key] = prev + coef
        else:
            out[key] = _z(prev) + _z(coef)
        return True

    if z3.is_app(e) and e.decl().kind() == z3.Z3_OP_ADD:
        parts = e.children()
    else:
        parts = [e]
    for p in parts:
        if not term(p):
            return None
    return out


def _z(x):
    if isinstance(x, Fraction):
        return z3.Q(x.numerator, x.denominator)
    return x


# ---------------------------------------------------------------------------------------------
# validation of one (inputs, outputs) pair
# ---------------------------------------------------------------------------------------------
def read_output(text, functions_):
    """-> list of ASTs (each accepted by the library's own reader as well)"""
    from pddl_plus_parser.lisp_parsers import PDDLTokenizer
    from pddl_plus_parser.models import construct_expression_tree
    try:
        ast = sexpr.read(text)
    except sexpr.ReadError as e:
        raise BadOutput(f"unbalanced output: {e}")
    try:
        lib_ast = PDDLTokenizer(pddl_str=text).parse()
        construct_expression_tree(lib_ast, functions_)
    except Exception as e:  # noqa
        raise BadOutput(f"the library's own reader rejects the output: {type(e).__name__}: {e}")
    return ast


def check_pair(in_conds, out_texts, digits, stats, kind="cond", junction="and"):
    """in_conds: list of ASTs (conditions, or a single expression if kind == 'expr');
    out_texts: list of strings.  Returns (verdict, detail, witness)"""
    fs = functions()
    m = Meaning()
    if kind == "expr":
        ein = m.expr(in_conds[0])
        try:
            out_ast = read_output(out_texts[0], fs)
            m.note_output_shape(out_ast)
            eout = m.expr(out_ast, strict_binary=True)
        except BadOutput as e:
            return "violation", str(e), None
        return compare_exprs(m, in_conds[0], out_ast, ein, eout, digits, stats, scalar=False)
    ins = [m.cond(c) for c in in_conds]
    outs, out_asts = [], []
    try:
        for t in out_texts:
            ast = read_output(t, fs)
            m.note_output_shape(ast)
            outs.append(m.cond(ast, strict_binary=True))
            out_asts.append(ast)
    except BadOutput as e:
        return "violation", str(e), None
    if junction == "or":
        return conj_equiv(m, ins, outs, stats, None, junction="or")
    if len(ins) == 1 and len(outs) == 1:
        (op, l, r), (op2, l2, r2) = ins[0], outs[0]
        if op != op2:
            return conj_equiv(m, ins, outs, stats, f"operator changed from {op} to {op2}")
        ia, oa = in_conds[0], out_asts[0]
        return compare_exprs(m, ["-", ia[1], ia[2]], ["-", oa[1], oa[2]], l - r, l2 - r2, digits, stats,
                             scalar=(op == "="), ins=ins, outs=outs)
    return conj_equiv(m, ins, outs, stats, None)


def compare_exprs(m, in_ast, out_ast, pin, pout, digits, stats, scalar, ins=None, outs=None):
    """'the same up to rounding of coefficients at the requested number of decimals':
    there are perturbations delta_i, |delta_i| <= 1/2 * 10^-digits, of the numerals printed in the output (and, for
    an equation, a non-zero scale factor) under which input and output are the same polynomial.  Both sides are
    put in sum-of-monomials form exactly; z3 decides the existence of the perturbation (QF_NRA over the deltas)."""
    tol = Fraction(1, 2 * 10 ** digits)
    a = poly_of(in_ast)
    deltas = []
    b = poly_of(out_ast, deltas) if a is not None else None
    if a is None or b is None:
        # rational functions: exact equivalence by NRA only (the generator keeps these free of rounding)
        if ins is None:
            return nra_equal(m, pin, pout, stats)
        return conj_equiv(m, ins, outs, stats, None)
    if scalar:
        b = b * Poly.var("s!")
    az, bz = split_params(a), split_params(b)
    sol = z3.Solver()
    sol.set("timeout", 10000)
    tz = z3.Q(tol.numerator, tol.denominator)
    dvs = [z3.Real(d) for d in deltas]
    for dv in dvs:
        sol.add(dv <= tz, -dv <= tz)
    if scalar:
        sol.add(z3.Real("s!") != 0)
    amp = m.amplification
    zero = z3.RealVal(0)
    b_exact = poly_of(out_ast) or Poly()

    def _sub_multiset(small, big):
        rest = list(big)
        for x in small:
            if x in rest:
                rest.remove(x)
            else:
                return False
        return True

    for i, k in enumerate(sorted(set(az) | set(bz))):
        # eps_k: a term whose coefficient rounds to zero is legitimately omitted from the output; inside a
        # factored output (a product of sums) the omission is multiplied by the other factor: `amp` bounds that.
        # When the rounded-away numeral was the only addend next to a fluent, "(x + 0.3) * rest" at 0 digits, the sum
        # itself disappears from the print and the output is the single monomial x * rest: a monomial k that is absent
        # from the output but divides an output monomial j by one (two) fluent(s) may then differ by tol * |coefficient
        # of j| (tol^2 * ...), which is exactly what the elided numeral(s) could contribute.
        bound = tol * amp
        if b_exact.get(k, Fraction(0)) == 0:
            for j, cj in b_exact.items():
                extra = len(j) - len(k)
                if extra in (1, 2) and _sub_multiset(k, j):
                    bound = max(bound, (tol ** extra) * (abs(cj) + tol) * (1 if extra == 1 else 2))
        ek = z3.Real(f"e!{i}")
        ez = z3.Q(bound.numerator, bound.denominator)
        sol.add(ek <= ez, -ek <= ez)
        sol.add(az.get(k, zero) == bz.get(k, zero) + ek)
    t0 = time.time()
    r = sol.check()
    stats["queries"] += 1
    stats["solver_s"] += time.time() - t0
    if r == z3.sat:
        mdl = sol.model()
        used = [abs(_fr(mdl.eval(dv, model_completion=True))) for dv in dvs]
        if not used or max(used) == 0:
            stats["exact"] += 1
        return "held", f"identical polynomials after perturbing {len(deltas)} printed numerals by at most " \
                       f"{float(max(used)) if used else 0.0:.3g} (allowed {float(tol):.3g})", None
    if r == z3.unknown:
        return "inconclusive", "perturbation query unknown", None
    # no admissible rounding explains the output: exhibit a valuation where the *printed* conditions differ
    wit = None
    if ins is not None:
        v = conj_equiv(m, ins, outs, stats, None)
        wit = v[2]
    b0 = poly_of(out_ast) or Poly()
    keys = set(a) | set(b0)
    worst = max(keys, key=lambda k: abs(a.get(k, Fraction(0)) - b0.get(k, Fraction(0)))) if keys else ()
    return "violation", (f"no rounding of the printed numerals within {float(tol):.3g} ({digits} digits) makes input and output "
                         f"the same polynomial; e.g. coefficient of {'*'.join(worst) or '1'}: input {float(a.get(worst, 0)):.6g}, "
                         f"output {float(b0.get(worst, 0)):.6g}"), wit


def _fr(v):
    if z3.is_algebraic_value(v):
        v = v.approx(20)
    return Fraction(v.numerator_as_long(), v.denominator_as_long())


def nra_equal(m, e1, e2, stats):
    s = z3.Solver()
    s.set("timeout", 10000)
    for d in m.dens:
        s.add(d != 0)
    t0 = time.time()
    r = s.check(e1 != e2)
    stats["queries"] += 1
    stats["solver_s"] += time.time() - t0
    if r == z3.unsat:
        return "held", "NRA: expressions equal for all valuations with non-zero denominators", None
    if r == z3.sat:
        return "violation", "expressions differ", model_point(s.model(), m)
    return "inconclusive", "NRA unknown", None


def conj_equiv(m, ins, outs, stats, note, junction="and"):
    s = z3.Solver()
    s.set("timeout", 15000)
    for d in m.dens:
        s.add(d != 0)
    J, unit = (z3.And, True) if junction == "and" else (z3.Or, False)
    cin = J([rel(*c) for c in ins]) if ins else z3.BoolVal(unit)
    cout = J([rel(*c) for c in outs]) if outs else z3.BoolVal(unit)
    t0 = time.time()
    r = s.check(cin != cout)
    stats["queries"] += 1
    stats["solver_s"] += time.time() - t0
    if r == z3.unsat:
        return "held", f"NRA: {'con' if junction == 'and' else 'dis'}junctions equivalent for all valuations", None
    if r == z3.sat:
        return "violation", (note or "conditions not equivalent"), model_point(s.model(), m)
    return "inconclusive", "NRA unknown", None


def model_point(model, m):
    out = {}
    for k, v in m.vars.items():
        val = model.eval(v, model_completion=True)
        if z3.is_algebraic_value(val):
            val = val.approx(20)
        out[k] = float(Fraction(val.numerator_as_long(), val.denominator_as_long()))
    return out


# ---------------------------------------------------------------------------------------------
# running the real simplifier
# ---------------------------------------------------------------------------------------------
def run_case(case):
    """case: {'entry':..., 'conds': [ast...], 'digits': d}"""
    from pddl_plus_parser.models import numeric_symbolic_operations as nso
    from pddl_plus_parser.models import Precondition
    stats = {"queries": 0, "solver_s": 0.0, "exact": 0}
    entry, conds, d = case["entry"], case["conds"], case["digits"]
    res = {"case": case, "verdict": "held", "detail": "", "output": None}
    try:
        trees = [lib_tree(c) for c in conds]
    except Exception as e:  # noqa
        res["verdict"], res["detail"] = "error", f"cannot build input tree: {type(e).__name__}: {e}"
        return res
    kw = {} if d is None else {"decimal_digits": d}
    dd = d if d is not None else int(os.environ.get("NUMERIC_PRECISION", 4))
    if case.get("after"):
        # this process simplified a look-alike first (same shape, constants that differ from the fifth decimal on): its result is
        # not judged here, and must not leak into the case below
        try:
            run_case({"entry": entry, "conds": case["after"], "digits": d})
        except Exception:  # noqa
            pass
    try:
        if entry == "expression":
            t = trees[0]
            out = [nso.simplify_complex_numeric_expression(t.to_mathematical(), **kw)]
            verdict = check_pair([conds[0]], out, dd, stats, kind="expr")
        elif entry == "inequality":
            t = trees[0]
            out = [nso.simplify_inequality(t.to_mathematical(), t.root.value, [], **kw)]
            verdict = check_pair(conds, out, dd, stats)
        elif entry == "equality":
            t = trees[0]
            o = nso.simplify_equality(t.to_mathematical()[1:-1], **kw)
            out = [o] if o else []
            verdict = check_pair(conds, out, dd, stats) if out else check_trivial(conds, stats)
        elif entry == "tree_method":
            t = trees[0]
            out = [t.simplify_complex_numerical_pddl_expression(**kw)]
            verdict = check_pair(conds, out, dd, stats)
        elif entry == "precondition":
            p = Precondition("and")
            for t in trees:
                p.add_condition(t)
            text = p.print(should_simplify=True, **kw) if d is not None else p.print(should_simplify=True)
            dd = d if d is not None else 2
            ast = sexpr.read(text)
            if ast[0] != "and":
                raise BadOutput("precondition does not print as (and ...)")
            out = [sexpr.render(c) for c in ast[1:]]
            verdict = check_pair(conds, out, dd, stats)
        elif entry == "precondition_nested":
            # (and A (or B C)): the nested junction is printed by the same call, at the SAME number of decimals
            p = Precondition("and")
            p.add_condition(trees[0])
            nested = Precondition("or")
            for t in trees[1:]:
                nested.add_condition(t)
            p.add_condition(nested)
            text = p.print(should_simplify=True, **kw)
            ast = sexpr.read(text)
            inner = [c for c in ast[1:] if c and c[0] == "or"]
            outer = [c for c in ast[1:] if not (c and c[0] == "or")]
            if ast[0] != "and" or len(inner) != 1:
                raise BadOutput(f"(and A (or B C)) does not print as a conjunction with one disjunction: {text}")
            out = [sexpr.render(c) for c in outer] + ["OR"] + [sexpr.render(c) for c in inner[0][1:]]
            verdict = check_pair(conds[:1], out[:len(outer)], dd, stats)
            if verdict[0] == "held":
                verdict = check_pair(conds[1:], [sexpr.render(c) for c in inner[0][1:]], dd, stats, junction="or")
        elif entry == "precondition_or":
            # the same conditions as members of a disjunction: an equality is an assumption only under 'and'
            p = Precondition("or")
            for t in trees:
                p.add_condition(t)
            text = p.print(should_simplify=True, **kw) if d is not None else p.print(should_simplify=True)
            dd = d if d is not None else 2
            ast = sexpr.read(text)
            if ast[0] != "or":
                raise BadOutput("disjunction does not print as (or ...)")
            out = [sexpr.render(c) for c in ast[1:]]
            verdict = check_pair(conds, out, dd, stats, junction="or")
        else:
            raise ValueError(entry)
        res["output"] = out
        res["verdict"], res["detail"], res["witness"] = verdict
    except BadOutput as e:
        res["verdict"], res["detail"] = "violation", str(e)
    except Exception as e:  # the simplifier crashed on valid input
        import traceback
        tb = traceback.extract_tb(e.__traceback__)
        where = next((f"{os.path.basename(f.filename)}:{f.lineno}" for f in reversed(tb) if "pddl_plus_parser" in f.filename), "")
        if any("/verif/" in f.filename for f in tb[-1:]):
            res["verdict"], res["detail"] = "error", f"{type(e).__name__}: {e} {traceback.format_exc()[-600:]}"
        else:
            res["verdict"], res["detail"] = "violation", f"simplifier raised {type(e).__name__}: {e} at {where}"
    res["stats"] = stats
    return res


def check_trivial(conds, stats):
    """simplify_equality returned None: the equation must hold for every valuation"""
    m = Meaning()
    op, l, r = m.cond(conds[0])
    s = z3.Solver()
    s.set("timeout", 10000)
    for d in m.dens:
        s.add(d != 0)
    t0 = time.time()
    res = s.check(l != r)
    stats["queries"] += 1
    stats["solver_s"] += time.time() - t0
    if res == z3.unsat:
        return "held", "omitted equation is valid", None
    if res == z3.sat:
        return "violation", "a non-trivial equation was omitted", model_point(s.model(), m)
    return "inconclusive", "NRA unknown", None


def replay_case(case):
    """Re-run the real simplifier and evaluate input and output at a concrete rational point chosen by the solver."""
    return run_case(case)


def divides_by_fluent(tree) -> bool:
    if isinstance(tree, str):
        return False
    if tree[0] == "/" and len(tree) == 3 and not isinstance(tree[2], str):
        return True
    return any(divides_by_fluent(t) for t in tree[1:])


def cases_for(tier, seed):
    rng = random.Random(seed * 977 + 3)
    cases = []
    n = 900 if tier == "quick" else 8000
    digits_cycle = [0, 1, 2, 3, 4, 5, 6]
    # regression corners named in the property
    fixed = [
        (["<=", ["+", ["*", "2.99999", ["f", "?x"]], ["g"]], "10"], "inequality"),
        (["<=", ["/", ["f", "?x"], "2"], ["g"]], "inequality"),
        (["<", ["/", "1", ["*", ["f", "?x"], ["f", "?x"]]], "2"], "inequality"),
        (["<=", ["*", "0.00004", ["f", "?x"]], "1"], "inequality"),
        ([">=", ["*", ["f", "?x"], ["+", ["g"], "1.5"]], ["-", ["load_limit", "?x"], "0.25"]], "inequality"),
        (["=", ["+", ["f", "?x"], ["g"]], "3"], "equality"),
        (["=", ["+", ["*", "2", ["f", "?x"]], ["*", "2", ["g"]]], "6"], "equality"),
        (["=", ["f", "?x"], ["f", "?x"]], "equality"),
        (["<=", ["+", ["fuel-cost", "?x"], ["fuelcost", "?x"]], "4"], "inequality"),
        (["<=", ["-", ["a", "b"], ["ab"]], "0"], "inequality"),
        # round 23: third and fourth powers of one fluent in a denominator (a reciprocal power clamped at two)
        (["<=", ["/", ["/", ["/", ["g"], ["f", "?x"]], ["f", "?x"]], ["f", "?x"]], "1"], "inequality"),
        (["<", ["/", "2", ["*", ["*", ["f", "?x"], ["f", "?x"]], ["*", ["f", "?x"], ["f", "?x"]]]], ["g"]], "inequality"),
        (["/", "1", ["*", ["f", "?x"], ["*", ["f", "?x"], ["f", "?x"]]]], "expression"),
        # a quotient by a SUM (a denominator that is no monomial)
        (["<=", ["/", ["f", "?x"], ["+", ["g"], "1"]], "2"], "inequality"),
        ([">=", ["/", ["*", "2", ["f", "?x"]], ["+", ["g"], ["load_limit", "?x"]]], ["fuel-cost", "?x"]], "inequality"),
        (["/", "1", ["+", ["f", "?x"], ["*", "2", ["g"]]]], "expression"),
        # a factor that is a SUM whose every coefficient rounds to zero at 2 (4) decimals: the product vanishes, it does not lose the factor
        (["<=", ["*", ["f", "?x"], ["+", ["*", "0.004", ["g"]], "0.001"]], "10"], "tree_method"),
        (["*", ["f", "?x"], ["+", ["*", "0.004", ["g"]], "0.001"]], "expression"),
        (["=", ["*", ["f", "?x"], ["+", ["*", "0.00002", ["g"]], "0.00001"]], ["load_limit", "?x"]], "equality"),
    ]
    for c, entry in fixed:
        for d in (0, 2, 4, 6):
            cases.append({"entry": entry, "conds": [c], "digits": d})
            if entry == "inequality":
                cases.append({"entry": "tree_method", "conds": [c], "digits": d})
    for i in range(n):
        pool = FLUENT_POOLS[i % len(FLUENT_POOLS)]
        d = digits_cycle[i % 7]
        k = i % 10
        if k < 7:
            # rational expressions are validated by an exact equivalence query only: nothing may need rounding
            make = (lambda: condition(rng, pool, op=rng.choice(["<=", ">=", "<", ">"]))) if k < 4 else \
                (lambda: condition(rng, pool, op="=")) if k < 6 else (lambda: expression(rng, pool))
            c = make()
            if divides_by_fluent(c):  # a quotient by a numeral is a polynomial with a rational coefficient: compared with tolerance
                NICE[0] = True
                c = make()
                NICE[0] = False
                d = 4 + (i % 3)
            elif "/" in sexpr.render(c) and d < 2:
                # an exact rational coefficient (k/3, k/7, k/9 ...): sympy may pull it out as a factor of a whole product, and a
                # factor that rounds to 0 at 0-1 decimals makes the simplifier print 0 for the product -- "rounding of a
                # coefficient" by the letter, but not explainable term by term; these inputs are checked at >= 2 decimals
                d = 2 + (i % 5)
            entry = ("inequality" if k < 3 else "tree_method") if k < 4 else "equality" if k < 6 else "expression"
            cases.append({"entry": entry, "conds": [c], "digits": d})
        else:
            NICE[0] = True
            neq = rng.choice([0, 1, 1, 2])
            ineqs = [condition(rng, pool, op=rng.choice(["<=", ">=", "<", ">"])) for _ in range(rng.choice([1, 2]))]
            if any("/" in sexpr.render(c) for c in ineqs):
                neq = 0  # an equality may force a denominator to zero: such inputs have no meaning (outside the claim)
            cs = [linear_equality(rng, pool) for _ in range(neq)] + ineqs
            NICE[0] = False
            cases.append({"entry": "precondition", "conds": cs, "digits": 4 + (i % 3)})
            if neq and i % 20 >= 17:
                cases.append({"entry": "precondition_or", "conds": cs, "digits": 4 + (i % 3)})
    # look-alike pairs handled by one process one after the other: the same condition with constants that agree to four decimals
    def near(tree, delta):
        if isinstance(tree, str):
            return repr(float(tree) + delta) if "." in tree else tree
        return [tree[0]] + [near(t, delta) for t in tree[1:]]

    twins = [
        ["<=", ["+", ["*", ["f", "?x"], "0.99999"], ["g"]], ["load_limit", "?x"]],
        [">=", ["-", ["*", "2.50001", ["*", ["f", "?x"], ["g"]]], ["*", "0.5", ["g"]]], "1.25"],
        ["<", ["*", ["+", ["f", "?x"], "0.33333"], ["g"]], "7.00001"],
    ]
    for t in twins:
        for entry in ("precondition", "inequality", "tree_method"):
            for d in (5, 6):
                cases.append({"entry": entry, "conds": [near(t, 0.00002)], "digits": d, "after": [t]})
    cases.append({"entry": "expression", "conds": [near(twins[0][1], 0.00002)], "digits": 6, "after": [twins[0][1]]})
    cases.append({"entry": "equality", "conds": [["=", near(twins[0][1], 0.00002), ["load_limit", "?x"]]], "digits": 6,
                  "after": [["=", twins[0][1], ["load_limit", "?x"]]]})
    # a junction nested in the conjunction, constants that need three or four decimals, printed at 4-6 decimals
    for pi, pool in enumerate(FLUENT_POOLS):
        a, b, c_ = [sexpr.read(x) for x in pool[:3]]
        for d in (4, 5, 6):
            cases.append({"entry": "precondition_nested", "digits": d, "conds": [
                ["<=", ["*", "0.4375", a], b],
                ["<=", ["*", "0.0625", b], c_],
                [">=", ["+", ["*", "3.125", a], ["*", "0.1875", c_]], "1.875"]]})
    # default-digits path (the module-level default read from NUMERIC_PRECISION)
    for c, entry in fixed[:3] + fixed[4:6]:
        cases.append({"entry": entry, "conds": [c], "digits": None})
    return cases


def sub_main(tier):
    cases = cases_for(tier, runner.seed())
    if os.environ.get("C13_ONLY_DEFAULT_DIGITS"):
        cases = [c for c in cases if c["digits"] is None]
    results = runner.pmap(run_case, cases)
    json.dump(results, sys.stdout, default=str)
    return 0


def twin():
    """a deliberately wrong 'output' must be refuted: (<= (* 2 f) 10) for input (<= (* 3 f) 10)"""
    stats = {"queries": 0, "solver_s": 0.0, "exact": 0}
    v = check_pair([["<=", ["*", "3", ["f", "?x"]], "10"]], ["(<= (* (f ?x) 2) 10)"], 4, stats)
    w = check_pair([["<", ["/", "1", ["f", "?x"]], "2"]], ["(< (/ 2 (f ?x)) 2)"], 4, stats)
    return v[0] == "violation" and w[0] == "violation" and w[2] is not None


def main(tier):
    rep = runner.Report("C13", tier, "translation_validation")
    configs = [{}, {"NUMERIC_PRECISION": "2", "C13_ONLY_DEFAULT_DIGITS": "1"}]
    from collections import Counter
    c = Counter()
    total = queries = exact = 0
    solver_s = 0.0
    samples = []
    distinct = set()
    disagreements = 0
    for cfg in configs:
        env = dict(os.environ)
        env.pop("NUMERIC_PRECISION", None)
        env.update(cfg)
        p = subprocess.run([sys.executable, "-B", "-m", "checks.c13", "--sub", tier], env=env, capture_output=True, text=True,
                           cwd=runner.VERIF)
        if p.returncode != 0 or not p.stdout.strip():
            rep.errors.append(f"config {cfg}: subprocess failed rc={p.returncode} {p.stderr[-800:]}")
            continue
        for r in json.loads(p.stdout):
            total += 1
            c[r["verdict"]] += 1
            st = r.get("stats") or {}
            queries += st.get("queries", 0)
            exact += st.get("exact", 0)
            solver_s += st.get("solver_s", 0.0)
            distinct.add(json.dumps(r["case"], sort_keys=True))
            case = r["case"]
            desc = f"{case['entry']} digits={case['digits']} {cfg or ''} input {[sexpr.render(x) for x in case['conds']]} -> {r.get('output')}"
            if r["verdict"] == "violation":
                disagreements += 1
                rep.violation(f"{desc}: {r['detail']}" + (f" e.g. at {r.get('witness')}" if r.get("witness") else ""),
                              {"property": "C13", "kind": "c13", "config": cfg, "case": case, "output": r.get("output"),
                               "detail": r["detail"], "witness": r.get("witness")})
            elif r["verdict"] == "inconclusive":
                rep.inconclusive.append(f"{desc}: {r['detail']}")
            elif r["verdict"] == "error":
                rep.errors.append(f"{desc}: {r['detail']}")
            elif len(samples) < 5 and len(case["conds"]) >= 1 and total % 37 == 0:
                samples.append({"entry": case["entry"], "digits": case["digits"], "input": [sexpr.render(x) for x in case["conds"]],
                                "output": r.get("output"), "verdict_detail": r["detail"]})
    if not twin():
        rep.twins_failed.append("vacuity twin (a deliberately wrong output) was not refuted with a witness")
    rep.coverage.update({
        "programs": total, "disagreements_checked": disagreements,
        "samples": samples or [{"note": "none"}],
        "evaluations": total, "distinct_nontrivial": len(distinct),
        "rule": "one program = one (entry point, input conditions, digits) run through the real sympy-based simplifier; each output is "
                "validated for all real valuations (z3); distinct = distinct inputs",
        "outcomes": dict(c), "smt_queries": queries, "solver_seconds": round(solver_s, 2),
        "pairs_with_nothing_rounded": exact, "exhaustive": False,
        "entry_points": ["simplify_complex_numeric_expression", "simplify_inequality", "simplify_equality",
                         "NumericalExpressionTree.simplify_complex_numerical_pddl_expression", "Precondition.print(should_simplify=True)"],
        "bounds": {"expressions": "sums of <=4 monomials of degree <=3 over <=4 fluents, optional constant term, optional product with "
                                  "(fluent + c), optional single division (by a constant, 1/f, 1/(f*f))",
                   "fluent_names": "lifted and grounded, with '-', '_', digits, and pairs that collide once ( ) - ? blank are deleted",
                   "coefficients": "integers, 1-4 decimal values, k +/- 1e-5, 4e-5..4e-2, 100000", "digits": "0..6 and the module default",
                   "equalities": "0-2 linear equalities per precondition",
                   "outside": "float rounding inside sympy beyond the printed digits; expressions beyond the bound"},
    })
    rep.assumptions += ["the exact polynomial normal form (checks.c13.Poly) and z3 nlsat", "denominators non-zero on both sides",
                        "rounding = each printed numeral within 1/2 * 10^-digits of an exact coefficient; a term whose coefficient "
                        "rounds to zero may be omitted (amplified by the other factor's size in factored outputs)"]
    return rep.finish(total=total)


def replay(payload, path):
    cfg = payload.get("config") or {}
    for k, v in cfg.items():
        if k.startswith("C13_"):
            continue
        if os.environ.get(k) != v:
            env = dict(os.environ)
            env.update({k: v for k, v in cfg.items() if not k.startswith("C13_")})
            return subprocess.call([sys.executable, "-B", "-m", "checks.main", "C13", "--replay", path], env=env, cwd=runner.VERIF)
    r = run_case(payload["case"])
    print(json.dumps({k: r[k] for k in ("verdict", "detail", "output")}, indent=1, default=str))
    if r.get("witness"):
        print("witness valuation:", r["witness"])
    if r["verdict"] == "violation":
        print(f"VIOLATION property=C13 replay={path}")
        return 1
    print("does not reproduce")
    return 0


if __name__ == "__main__":
    if len(sys.argv) >= 3 and sys.argv[1] == "--sub":
        sys.exit(sub_main(sys.argv[2]))
