"""C19 -- planner logs yield exactly the plan's steps, in order.

Bounded symbolic execution of the real MetricFFParser (_open_plan_file, _parse_plan_content,
get_solving_status, parse_plan) and ENHSPParser (parse_plan_content, parse_plan) on log texts whose
action names, arguments, free trailer line and line terminators are symbolic ASCII characters
(symx.text.SymStr); `re` is the symx.rex matcher driven by the pattern objects found in the module,
`open` an in-memory file.  Log skeletons, step numbers and piece lengths are enumerated.
"""
import itertools
import json
import random

import z3

from . import lib, runner
from symx import rex, text
from symx.core import Ctx, SymBool, Stats, explore, Inconclusive, Unsupported, PathLimit
from symx.text import SymStr, SymChar, expand_tags

HEADERS = [
    "\nff: parsing domain file\ndomain 'D' defined\n ... done.\nff: parsing problem file\nproblem 'P' defined\n ... done.\n\n\n"
    "no metric specified. plan length assumed.\n\nchecking for cyclic := effects --- OK.\n\n"
    "ff: search configuration is EHC, if that fails then  best-first on 1*g(s) + 5*h(s) where\n    metric is  plan length\n\n"
    "Cueing down from goal distance:    3 into depth [1]\n                                   2            [1]\n"
    "                                   0\n\n",
    "\nadvancing to distance:   12\n                         11\n                          0\n\n",
    # the log of a wrapper that tried another configuration first: a give-up phrase BEFORE the plan (the log contains a plan)
    "\nEnforced Hill-climbing failed !\nswitching to Best-first Search now.\n\nadvancing to distance:    3\n                          0\n\n",
    "\nff: goal can be simplified to FALSE. No plan will solve it\n\nsecond run:\n\nadvancing to distance:    1\n                          0\n\n",
    # the plan marker at the very beginning of the log / after one blank line / after a few characters
    "", "\n", "ff v2\n",
]
MARKER = "ff: found legal plan as follows\n\n"
TRAILERS = [
    "time spent:    0.00 seconds instantiating 6 easy, 0 hard action templates\n"
    "               0.00 seconds reachability analysis, yielding 12 facts and 6 actions\n"
    "               0.00 seconds creating final representation with 12 relevant facts, 0 relevant fluents\n"
    "               0.00 seconds computing LNF\n               0.00 seconds building connectivity graph\n"
    "               0.00 seconds searching, evaluating 4 states, to a max depth of 1\n"
    "               0.00 seconds total time\n\n",
    "\n",
    "",  # the log ends with the plan (truncated output, or a front end that prints only the plan section)
]
NO_SOLUTION_LOGS = [
    ("best first search space empty! problem proven unsolvable.\n\n", "no-solution"),
    ("ff: goal can be simplified to FALSE. No plan will solve it\n\n", "no-solution"),
    ("all increasers applied yet goal not fulfilled\n", "no-solution"),
    ("Enforced Hill-climbing failed !\nswitching to Best-first Search now.\n", "timeout"),
    ("", "timeout"),
]

NAME_CHARS = z3  # placeholder to keep linters quiet


def name_char(v):
    return z3.Or(z3.And(v >= 48, v <= 57), z3.And(v >= 65, v <= 90), z3.And(v >= 97, v <= 122), v == 95, v == 45)


def _ff():
    import pddl_plus_parser.exporters.ff_output_parser as ff
    return ff


_REX = rex.module()


def step_prefix(i, number, indent):
    # Metric-FF: "step %4d: " for the first step, "     %4d: " afterwards
    if indent < 0:
        # flush left: only the first step carries the word "step", the numbers of the later steps start in column 0
        return ("step " if i == 0 else "") + str(number) + ": "
    lead = "step" if i == 0 else "    "
    return lead + " " * indent + str(number) + ": "


def build_log(task, pieces, trailer_free, eol):
    """pieces: list of list of SymStr (name, args...) per step; returns (SymStr log, expected list of SymStr)"""
    log = SymStr.of(HEADERS[task["header"]] + MARKER)
    expected = []
    if not pieces and task.get("zero_step_note"):
        log = log + "\n"
    for i, words in enumerate(pieces):
        line = SymStr.of(step_prefix(i, task["numbers"][i], task["indent"]))
        body = words[0]
        for w in words[1:]:
            body = body + " " + w
        line = line + body + eol
        log = log + line
        expected.append(SymStr.of("(") + body.lower() + ")\n")
    if task.get("blank_after_plan", True):
        log = log + eol
    if trailer_free is not None:
        log = log + trailer_free + eol
    log = log + TRAILERS[task["trailer"]]
    return log, expected


def run_ff_task(task):
    ff = _ff()
    res = {"task": task, "outcome": "held", "paths": 0, "cex": None, "obligations": 0}
    stats = Stats()
    word_lens = task["word_lens"]  # per step: list of word lengths
    tl = task["trailer_len"]
    varz = []

    def mk():
        pieces = []
        cons = []
        for si, lens in enumerate(word_lens):
            words = []
            for wi, ln in enumerate(lens):
                vs = [z3.Int(f"s{si}w{wi}c{k}") for k in range(ln)]
                cons += [name_char(v) for v in vs]
                words.append(SymStr([SymChar(v) for v in vs]))
            pieces.append(words)
        tv = [z3.Int(f"tr{k}") for k in range(tl)]
        # the free log line: any ASCII character except ':' and line terminators
        cons += [z3.And(v >= 0, v <= 127, v != 58, v != 10, v != 13) for v in tv]
        trailer_free = SymStr([SymChar(v) for v in tv]) if task.get("free_line", True) else None
        return pieces, trailer_free, cons

    def fn(ctx: Ctx):
        pieces, trailer_free, cons = mk()
        if not ctx.assume(z3.And(cons) if cons else z3.BoolVal(True)):
            return None
        eol = "\r\n" if task.get("crlf") else "\n"
        log, expected = build_log(task, pieces, trailer_free, eol)
        rex.install(ff, _REX)
        files = {"/sym/plan.log": log}
        ff.open = text.make_open(files)
        try:
            p = ff.MetricFFParser()
            entry = task["entry"]
            if entry == "content":
                got = p._parse_plan_content(log)
                status = "ok"
            elif entry == "status":
                status, got = p.get_solving_status("/sym/plan.log")
            else:
                p.parse_plan("/sym/plan.log", "/sym/plan.out")
                files["/sym/plan.out"] = SymStr([])
                got = list(files.get("/sym/plan.out:written", []))
                status = "ok"
        finally:
            del ff.open
        return log, expected, status, got

    def on_path(ctx: Ctx, pr):
        if pr.kind == "exc":
            _cex(ctx, res, task, None, f"library raised {type(pr.value).__name__}: {pr.value}", z3.BoolVal(True))
            return
        if pr.value is None:
            return
        log, expected, status, got = pr.value
        res["obligations"] += 1
        if status != "ok":
            _cex(ctx, res, task, log, f"status {status} for a log that contains a plan", z3.BoolVal(True))
            return
        if len(got) != len(expected):
            _cex(ctx, res, task, log, f"{len(got)} actions extracted, the plan has {len(expected)} steps", z3.BoolVal(True))
            return
        parts = []
        for g, e in zip(got, expected):
            gs = expand_tags(g) if isinstance(g, str) else g
            parts.append(gs.eqz(e))
        post = z3.And(parts) if parts else z3.BoolVal(True)
        if ctx.valid(post) is not None:
            _cex(ctx, res, task, log, "extracted actions differ from the plan's steps", z3.Not(post))

    _run(fn, on_path, res, stats, task)
    return res


def _run(fn, on_path, res, stats, task):
    try:
        explore(fn, on_path, stats=stats, max_paths=task.get("max_paths", 100000), timeout_ms=10000)
    except Inconclusive as e:
        res["outcome"], res["detail"] = "inconclusive", str(e)
    except (Unsupported, PathLimit) as e:
        res["outcome"], res["detail"] = "inconclusive", f"{type(e).__name__}: {e}"
    except Exception as e:  # noqa
        import traceback
        res["outcome"], res["detail"] = "error", f"{type(e).__name__}: {e} {traceback.format_exc()[-900:]}"
    res["paths"] = stats.paths
    res["stats"] = stats.as_dict()


def ff_reference(log_text: str):
    """Independent reading of a Metric-FF log: status and steps.  The plan section starts after the
    marker line; a step line is [step] <blanks> <digits> ':' ' ' <text>; the section ends at the first
    line that is not a step line."""
    lines = log_text.replace("\r\n", "\n").split("\n")
    idx = None
    for i, ln in enumerate(lines):
        if "ff: found legal plan as follows" in ln:
            idx = i
            break
    if idx is None:
        for pat in ("problem proven unsolvable", "ff: goal can be simplified to FALSE", "all increasers applied yet goal not fulfilled"):
            if pat in log_text:
                return "no-solution", []
        return "timeout", []
    steps = []
    j = idx + 1
    while j < len(lines) and lines[j].strip() == "":
        j += 1
    while j < len(lines):
        ln = lines[j]
        body = ln[4:] if ln.startswith("step") else ln
        body = body.lstrip(" ")
        k = 0
        while k < len(body) and body[k].isdigit():
            k += 1
        if k == 0 or not body[k:].startswith(": "):
            break
        steps.append("(" + body[k + 2:].strip().lower() + ")\n")
        j += 1
    return "ok", steps


PREVIOUS_LOG = HEADERS[1] + MARKER + "step    0: OLD-STEP X\n\n" + TRAILERS[0]


def concrete_ff(log_text: str, entry: str, after_previous_log: bool = False):
    """the real parser, real re, real files; optionally the log file held another run's log before (one solver.log per
    wrapper is usual): the answer must be about the file as it is now"""
    import re as real_re
    ff = _ff()
    rex.uninstall(ff)
    try:
        p = ff.MetricFFParser()
        if entry == "content":
            return "ok", p._parse_plan_content(log_text)
        path = lib.write_tmp("", ".log")
        if after_previous_log:
            with open(path, "wb") as f:
                f.write(PREVIOUS_LOG.encode("ascii"))
            p.get_solving_status(path)
        with open(path, "wb") as f:
            f.write(log_text.encode("ascii"))
        if entry == "status":
            return p.get_solving_status(path)
        out = lib.write_tmp("", ".plan")
        out.unlink()
        p.parse_plan(path, out)
        if not out.exists():
            return "ok", []
        with open(out, "rt", newline="") as f:
            content = f.read()
        return "ok", [l + "\n" for l in content.split("\n")[:-1]] if content else []
    finally:
        rex.install(ff, _REX)


def _cex(ctx, res, task, log, desc, neg):
    if res["outcome"] == "violation":
        return
    if log is None:
        return
    vs = log.variables()
    model = None
    for cons in ([z3.Or(z3.And(v >= 32, v <= 126)) for v in vs], []):
        if ctx.check(neg, *cons) == "sat":
            model = ctx.solver.model()
            break
    if model is None:
        return
    textv = log.concrete(model)
    entry = task["entry"]
    exp = ff_reference(textv)
    if entry == "content" and exp[0] != "ok":
        exp = ("ok", exp[1])
    for history in (False, True):
        # the symbolic run re-reads one in-memory path with changing content; a disagreement that only shows when the file
        # held another log before is replayed that way (and reported as such)
        got = concrete_ff(textv, entry, after_previous_log=history)
        if (got[0], list(got[1])) != (exp[0], list(exp[1])):
            res["outcome"] = "violation"
            res["cex"] = {"what": desc + (" [the log file held another run's log before]" if history else ""), "log": textv,
                          "entry": entry, "library": [got[0], list(got[1])], "reference": [exp[0], list(exp[1])],
                          "after_previous_log": history}
            return
    res["unconfirmed"] = res.get("unconfirmed", 0) + 1


def run_noplan_task(task):
    """a log without the plan marker: status no-solution/timeout and no actions, whatever the free line is"""
    ff = _ff()
    res = {"task": task, "outcome": "held", "paths": 0, "cex": None, "obligations": 0}
    stats = Stats()
    body, want = NO_SOLUTION_LOGS[task["variant"]]
    tl = task["trailer_len"]

    def fn(ctx: Ctx):
        tv = [z3.Int(f"tr{k}") for k in range(tl)]
        cons = [z3.And(v >= 0, v <= 127, v != 58, v != 10, v != 13) for v in tv]
        if not ctx.assume(z3.And(cons) if cons else z3.BoolVal(True)):
            return None
        free = SymStr([SymChar(v) for v in tv])
        # round 23: step-like lines (search-debug output) in a log that has no plan marker
        debug = "   0: MOVE A B\n   1: PICK-UP C\n" if task.get("steplike") else ""
        log = SymStr.of(HEADERS[task["header"]]) + free + "\n" + debug + body + TRAILERS[1]
        rex.install(ff, _REX)
        ff.open = text.make_open({"/sym/plan.log": log})
        try:
            status, got = ff.MetricFFParser().get_solving_status("/sym/plan.log")
        finally:
            del ff.open
        return log, status, got

    def on_path(ctx: Ctx, pr):
        if pr.kind == "exc":
            return _cex(ctx, res, dict(task, entry="status"), None, "raised", z3.BoolVal(True))
        if pr.value is None:
            return
        log, status, got = pr.value
        res["obligations"] += 1
        if status != want or list(got) != []:
            # the free line may itself spell one of the markers: ask the reference on the concrete text
            _cex(ctx, res, dict(task, entry="status"), log, f"status {status} / {len(got)} actions for a log without a plan "
                                                            f"(expected {want})", z3.BoolVal(True))

    _run(fn, on_path, res, stats, task)
    return res


def run_enhsp_task(task):
    import pddl_plus_parser.exporters.enhsp_output_parser as en
    res = {"task": task, "outcome": "held", "paths": 0, "cex": None, "obligations": 0}
    stats = Stats()
    lens = task["line_lens"]

    def fn(ctx: Ctx):
        lines = []
        cons = []
        for li, ln in enumerate(lens):
            vs = [z3.Int(f"l{li}c{k}") for k in range(ln)]
            cons += [z3.And(v >= 32, v <= 126) for v in vs]
            lines.append(SymStr([SymChar(v) for v in vs]))
        if not ctx.assume(z3.And(cons) if cons else z3.BoolVal(True)):
            return None
        content = SymStr([])
        expected = []
        for li, l in enumerate(lines):
            last = li == len(lines) - 1
            content = content + l + ("" if last and task.get("no_final_newline") else "\n")
            expected.append(l.lower())
        files = {"/sym/plan.txt": content}
        en.open = text.make_open(files)
        try:
            if task["entry"] == "content":
                got = en.ENHSPParser.parse_plan_content("/sym/plan.txt")
            else:
                en.ENHSPParser().parse_plan("/sym/plan.txt")
                got = list(files.get("/sym/plan.txt:written", []))
        finally:
            del en.open
        return content, expected, got

    def on_path(ctx: Ctx, pr):
        if pr.kind == "exc":
            res["outcome"] = "error"
            res["detail"] = f"{type(pr.value).__name__}: {pr.value}"
            return
        if pr.value is None:
            return
        content, expected, got = pr.value
        res["obligations"] += 1
        ok = len(got) == len(expected)
        got = [expand_tags(g) if isinstance(g, str) else g for g in got]
        # a step is the line's text, lower-cased; the line terminator may or may not be kept
        post = z3.And([z3.Or(g.eqz(e), g.eqz(e + "\n")) for g, e in zip(got, expected)] + [z3.BoolVal(ok)])
        m = ctx.valid(post)
        if m is not None and res["outcome"] != "violation":
            textv = content.concrete(m)
            # replay on the real parser with a real file
            p = lib.write_tmp(textv, ".txt")
            real = en.ENHSPParser.parse_plan_content(p)
            exp = [l.lower() for l in (textv[:-1] if textv.endswith("\n") else textv).split("\n")] if textv else []
            if [r[:-1] if r.endswith("\n") else r for r in real] != exp:
                res["outcome"] = "violation"
                res["cex"] = {"what": "ENHSP plan lines differ", "log": textv, "entry": "enhsp", "library": real, "reference": exp}
            else:
                res["unconfirmed"] = res.get("unconfirmed", 0) + 1

    _run(fn, on_path, res, stats, task)
    return res


def concrete_long_plans(seed):
    """0..150 steps with concrete names (count/order/number-width claim); plain differential run"""
    rnd = random.Random(seed + 5)
    bad = []
    alpha = "abcXYZ019_-"
    for n in (0, 1, 9, 10, 11, 99, 100, 101, 150):
        steps = []
        log = HEADERS[0] + MARKER
        for i in range(n):
            words = ["".join(rnd.choice(alpha) for _ in range(rnd.randint(1, 6))) for _ in range(rnd.randint(1, 4))]
            log += ("step" if i == 0 else "    ") + f"{i:5d}: " + " ".join(words).upper() + "\n"
            steps.append("(" + " ".join(words).lower() + ")\n")
        log += "\n" + TRAILERS[0]
        got = concrete_ff(log, "status")
        if n > 0 and (got[0] != "ok" or list(got[1]) != steps):
            bad.append({"steps": n, "library": [got[0], list(got[1])][:3], "log": log})
    return bad


def self_validate(seed):
    """rex must agree with re on the module's patterns for concrete strings"""
    import re as real_re
    ff = _ff()
    errs = []
    rnd = random.Random(seed + 3)
    pats = [(ff.PLAN_COMPONENT_REGEX, real_re.MULTILINE), (ff.VALID_PLAN_FOUND_PATTERN, real_re.MULTILINE)] + \
        [(o, real_re.MULTILINE) for o in ff.NO_SOLUTION_OPTIONS]
    alpha = "0 1:ab\n-_?(.A\r\tff"
    for pat, fl in pats:
        for _ in range(150):
            t = "".join(rnd.choice(alpha) for _ in range(rnd.randint(0, 16)))
            if rnd.random() < 0.2:
                t += pat.replace("\\d", "3")[: rnd.randint(0, len(pat))]
            a = [(m.span(), m.groups()) for m in real_re.finditer(pat, t, fl)]
            holder = {}
            explore(lambda ctx: [(m.span(), tuple(g.concrete() for g in m.groups())) for m in rex.finditer(pat, SymStr.of(t), fl)],
                    lambda ctx, pr: holder.setdefault("r", pr))
            pr = holder["r"]
            if pr.kind != "ok" or pr.value != a:
                errs.append(f"rex vs re on {pat!r} text {t!r}: {a} vs {pr.value}")
    return errs[:5]


def tasks_for(tier, seed):
    rng = random.Random(seed * 13 + 1)
    tasks = []
    numbers_sets = [[0, 1, 2], [9, 10, 11], [99, 100, 101], [148, 149, 150]]
    word_shapes_1 = [[[1]], [[2]], [[1, 1]], [[2, 1]], [[1, 1, 1]], [[2, 2]]]
    word_shapes_2 = [[[1], [1]], [[1, 1], [1]], [[2], [1, 1]], [[1], [2, 1]]]
    word_shapes_3 = [[[1], [1], [1]], [[1, 1], [1], [1, 1]]]
    tls = [0, 1, 2, 3] if tier == "quick" else [0, 1, 2, 3, 4, 5]
    if tier == "thorough":
        # longer names and arguments, every step-number set and indentation (enumerated instead of drawn)
        for ws in ([[3]], [[3, 1]], [[2, 3]], [[2, 2, 2]], [[3], [2]], [[1, 3], [3]]):
            for numbers in numbers_sets:
                for indent in (1, 4, 7):
                    for entry in ("content", "status"):
                        tasks.append({"kind": "ff", "entry": entry, "word_lens": ws, "trailer_len": 2 if len(ws) == 1 else 0,
                                      "numbers": numbers[: len(ws)], "indent": indent, "header": (indent + len(ws)) % 4,
                                      "trailer": indent % 3, "crlf": indent == 7, "blank_after_plan": indent != 1,
                                      "free_line": len(ws) == 1})
    for entry in ("content", "status", "parse_plan"):
        for ws in word_shapes_1 + word_shapes_2 + (word_shapes_3 if tier == "thorough" else word_shapes_3[:1]):
            for tl in tls:
                if entry != "content" and (tl not in (0, 2) or len(ws) > 2):
                    continue
                if len(ws) >= 2 and tl > 3:
                    continue
                for crlf in (False, True):
                    if crlf and (tl > 2 or entry == "parse_plan"):
                        continue
                    tasks.append({"kind": "ff", "entry": entry, "word_lens": ws, "trailer_len": tl,
                                  "numbers": rng.choice(numbers_sets)[: len(ws)], "indent": rng.choice([1, 3, 4, 7]),
                                  "header": rng.choice([0, 1]), "trailer": rng.choice([0, 1]), "crlf": crlf,
                                  "blank_after_plan": True, "free_line": True})
    # a plan of zero steps: the marker is there, the goal already holds
    for entry in ("content", "status", "parse_plan"):
        for tl in (0, 2):
            for header in (0, 1):
                tasks.append({"kind": "ff", "entry": entry, "word_lens": [], "trailer_len": tl, "numbers": [], "indent": 4,
                              "header": header, "trailer": 0, "crlf": False, "blank_after_plan": True, "free_line": tl > 0})
    # no blank line between the plan and the free line (Metric-FF always prints one; other front ends do not)
    for ws in word_shapes_1[:3]:
        for tl in tls[:4]:
            tasks.append({"kind": "ff", "entry": "content", "word_lens": ws, "trailer_len": tl, "numbers": [0, 1, 2][: len(ws)],
                          "indent": 4, "header": 1, "trailer": 0, "crlf": False, "blank_after_plan": False, "free_line": True})
    # a give-up phrase of an earlier attempt precedes the plan
    for entry in ("status", "parse_plan", "content"):
        for header in (2, 3, 4, 5, 6):
            if entry == "content" and header in (2, 3):
                continue
            for ws in word_shapes_1[:2] + word_shapes_2[:1]:
                tasks.append({"kind": "ff", "entry": entry, "word_lens": ws, "trailer_len": 0, "numbers": [0, 1, 2][: len(ws)],
                              "indent": 4, "header": header, "trailer": 0, "crlf": False, "blank_after_plan": True, "free_line": False})
    # step numbers flush left (column 0 from the second step on), one- and two-digit numbers
    for entry in ("content", "status", "parse_plan"):
        for ws, numbers in (([[1], [1]], [0, 1]), ([[2], [1], [1, 1]], [0, 1, 2]), ([[1], [2], [1]], [9, 10, 11])):
            tasks.append({"kind": "ff", "entry": entry, "word_lens": ws, "trailer_len": 0, "numbers": numbers, "indent": -1,
                          "header": 1, "trailer": 0, "crlf": False, "blank_after_plan": True, "free_line": False})
    # the log ends right after the newline of the last step / after one blank line / after a free line without the summary
    for entry in ("content", "status", "parse_plan"):
        for ws in word_shapes_1[:4] + word_shapes_2[:2]:
            for blank, tl in ((False, 0), (True, 0), (False, 2)):
                tasks.append({"kind": "ff", "entry": entry, "word_lens": ws, "trailer_len": tl, "numbers": [0, 1, 2][: len(ws)],
                              "indent": 4, "header": 1, "trailer": 2, "crlf": False, "blank_after_plan": blank, "free_line": tl > 0})
    for v in range(len(NO_SOLUTION_LOGS)):
        for tl in (0, 2, 3) if tier == "quick" else (0, 2, 3, 4):
            tasks.append({"kind": "noplan", "variant": v, "trailer_len": tl, "header": v % 2})
        for tl in (0, 2):
            tasks.append({"kind": "noplan", "variant": v, "trailer_len": tl, "header": (v + 1) % 2, "steplike": True})
    for ll in ([[1], [2], [3], [1, 1], [2, 1], [4]] if tier == "quick" else [[1], [2], [3], [1, 1], [2, 1], [4], [3, 2], [1, 1, 1], [5]]):
        for entry in ("content", "parse_plan"):
            tasks.append({"kind": "enhsp", "line_lens": ll, "entry": entry})
            if len(ll) <= 2:
                tasks.append({"kind": "enhsp", "line_lens": ll, "entry": entry, "no_final_newline": True})
    return tasks


def _dispatch(task):
    return {"ff": run_ff_task, "noplan": run_noplan_task, "enhsp": run_enhsp_task}[task["kind"]](task)


def _twin():
    """a deliberately wrong expectation (actions NOT lower-cased) must be refuted with a replayable log"""
    ff = _ff()
    found = []

    def fn(ctx):
        v = z3.Int("s0w0c0")
        ctx.assume(name_char(v))
        w = SymStr([SymChar(v)])
        log, expected = build_log({"header": 1, "numbers": [0], "indent": 4, "trailer": 1}, [[w]], None, "\n")
        rex.install(ff, _REX)
        return log, w, ff.MetricFFParser()._parse_plan_content(log)

    def on_path(ctx, pr):
        log, w, got = pr.value
        wrong = SymStr.of("(") + w + ")\n"
        m = ctx.valid(z3.And(z3.BoolVal(len(got) == 1), expand_tags(got[0]).eqz(wrong) if len(got) == 1 else z3.BoolVal(False)))
        if m is not None and not found:
            found.append(log.concrete(m))

    explore(fn, on_path)
    return bool(found) and any(ch.isupper() for ch in found[0].split("0: ")[1][:1])


def main(tier):
    rep = runner.Report("C19", tier, "other")
    try:
        for e in self_validate(runner.seed()):
            rep.errors.append("self-validation: " + e)
    except (Exception, Unsupported, Inconclusive, PathLimit) as e:  # noqa -- an unmodelled operation reached by the library's code: a harness error, but the run goes on
        rep.errors.append(f"self-validation stopped: {type(e).__name__}: {e}")
    tasks = tasks_for(tier, runner.seed())
    results = runner.pmap(_dispatch, tasks)
    from collections import Counter
    c = Counter()
    agg = Counter()
    paths = obligations = nontrivial = unconfirmed = 0
    solver_s = 0.0
    samples = []
    for t, r in zip(tasks, results):
        c[r["outcome"]] += 1
        paths += r["paths"]
        obligations += r["obligations"]
        unconfirmed += r.get("unconfirmed", 0)
        st = r.get("stats") or {}
        for k in runner.STAT_KEYS:
            agg[k] += st.get(k, 0)
        solver_s += st.get("solver_seconds", 0.0)
        if r["paths"] >= 2:
            nontrivial += 1
        if r["outcome"] == "violation":
            cx = r["cex"]
            rep.violation(f"{t}: {cx['what']}: log tail {cx['log'][-60:]!r} -> library {cx['library']} reference {cx['reference']}",
                          {"property": "C19", "kind": "c19", "task": t, "cex": cx})
        elif r["outcome"] == "inconclusive":
            rep.inconclusive.append(f"{t}: {r.get('detail')}")
        elif r["outcome"] == "error":
            rep.errors.append(f"{t}: {r.get('detail')}")
        elif len(samples) < 4 and r["paths"] >= 10:
            samples.append({"task": t, "paths": r["paths"], "obligation": "pc /\\ not(extracted == steps of the plan) unsat"})
    for b in concrete_long_plans(runner.seed()):
        rep.violation(f"plan of {b['steps']} steps: extracted {b['library']}",
                      {"property": "C19", "kind": "c19", "task": {"kind": "long"}, "cex": {"log": b["log"], "entry": "status",
                                                                                            "what": "long plan"}})
    try:
        tw = _twin()
    except (Exception, Unsupported, Inconclusive, PathLimit) as e:  # noqa
        tw = False
        rep.errors.append(f"vacuity twin stopped: {type(e).__name__}: {e}")
    if not tw:
        rep.twins_failed.append("vacuity twin (expectation without lower-casing) was not refuted")
    q = dict(agg)
    q["solver_seconds"] = round(solver_s, 2)
    rep.coverage.update({
        "evaluations": len(tasks), "distinct_nontrivial": nontrivial,
        "rule": "one evaluation = one (entry point, log skeleton, step-number set, piece lengths, line terminator) explored over "
                "all feasible paths with every character of names, arguments and the free log line symbolic; non-trivial = >=2 paths",
        "samples": samples or [{"note": "none"}], "outcomes": dict(c), "paths": paths, "obligations": obligations, "queries": q,
        "unconfirmed_counterexamples": unconfirmed, "vacuity_twin_refuted": tw, "exhaustive": False,
        "concrete_long_plans": "0,1,9,10,11,99,100,101,150 steps with concrete names run through get_solving_status",
        "bounds": {"steps_symbolic": "<=2 (quick) / <=3 (thorough) steps, names/arguments of 1-2 characters in [A-Za-z0-9_-], "
                                     "<=3 words per step", "free_line": "<=3 / <=5 arbitrary ASCII characters except ':' CR LF, "
                                                                        "with and without a blank line before it",
                   "line_terminators": "LF and CRLF", "step_numbers": "0..2, 9..11, 99..101, 148..150",
                   "outside": "non-ASCII logs; free lines containing ':' (they may legitimately look like a step)"},
        "functions_executed_symbolically": ["MetricFFParser._open_plan_file/_parse_plan_content/get_solving_status/parse_plan",
                                            "ENHSPParser.parse_plan_content/parse_plan"],
        "shims": ["re -> symx.rex on PLAN_COMPONENT_REGEX, VALID_PLAN_FOUND_PATTERN, NO_SOLUTION_OPTIONS as found in the module",
                  "open -> in-memory file (rb + decode, rt with universal newlines, wt)", "f-string of a SymStr -> placeholder token"],
    })
    rep.assumptions += ["ASCII", "the free log line contains no ':'", "rex agrees with re (validated at start-up on 150 strings per pattern)"]
    return rep.finish(total=len(tasks))


def replay(payload, path):
    cx = payload["cex"]
    if cx["entry"] == "enhsp":
        import pddl_plus_parser.exporters.enhsp_output_parser as en
        p = lib.write_tmp(cx["log"], ".txt")
        real = en.ENHSPParser.parse_plan_content(p)
        textv = cx["log"]
        exp = [l.lower() for l in (textv[:-1] if textv.endswith("\n") else textv).split("\n")] if textv else []
        bad = [r[:-1] if r.endswith("\n") else r for r in real] != exp
        print("library", real, "reference", exp)
    else:
        got = concrete_ff(cx["log"], cx["entry"], after_previous_log=bool(cx.get("after_previous_log")))
        exp = ff_reference(cx["log"])
        if cx["entry"] == "content":
            exp = ("ok", exp[1])
        print("library", got, "\nreference", exp)
        bad = (got[0], list(got[1])) != (exp[0], list(exp[1]))
    if bad:
        print(f"VIOLATION property=C19 replay={path}")
        return 1
    print("does not reproduce")
    return 0
