"""checks.runner -- shared plumbing: parallel map, known findings, replay files, evidence."""
import json
import multiprocessing as mp
import os
import sys
import time
from typing import Callable, Dict, List, Optional

VERIF = os.path.dirname(os.path.dirname(os.path.abspath(__file__)))
# the two overrides exist so that a seeded change can be evaluated in a scratch worktree (tools/try_seed_wt.sh)
# without touching the evidence of /repo itself; the registered commands never set them
EVIDENCE_DIR = os.environ.get("VERIF_EVIDENCE_DIR") or os.path.join(VERIF, "evidence")
REPLAY_DIR = os.environ.get("VERIF_REPLAY_DIR") or os.path.join(VERIF, "replays")
KNOWN = os.path.join(VERIF, "known_findings.jsonl")

EXIT_HELD, EXIT_VIOLATION, EXIT_INCONCLUSIVE = 0, 1, 2
STAT_KEYS = ("solver_sat", "solver_unsat", "solver_unknown", "forked_branches", "forced_branches",
             "discharged_by_linear_abstraction", "cvc5_cross_checked", "cvc5_agree", "cvc5_disagree")


def seed() -> int:
    try:
        return int(os.environ.get("VERIF_SEED", "0"))
    except ValueError:
        return 0


def workers() -> int:
    try:
        return max(1, int(os.environ.get("VERIF_WORKERS", str(min(16, os.cpu_count() or 4)))))
    except ValueError:
        return 8


def pmap(fn: Callable, tasks: List, chunksize: int = 1) -> List:
    """Order-preserving parallel map in forked workers (the library is imported per process
    from /repo's working tree; nothing is cached between runs)."""
    if not tasks:
        return []
    n = min(workers(), len(tasks))
    if n <= 1:
        return [fn(t) for t in tasks]
    ctx = mp.get_context("fork")
    with ctx.Pool(n, maxtasksperchild=500) as pool:
        return list(pool.imap(fn, tasks, chunksize=1))


def load_known(prop: str) -> List[dict]:
    out = []
    if os.path.exists(KNOWN):
        for line in open(KNOWN):
            line = line.strip()
            if not line or line.startswith("#"):
                continue
            rec = json.loads(line)
            if rec.get("property") == prop and rec.get("kind") == "finding":
                out.append(rec)
    return out


def attribute_problems(known: List[dict], problems: List[str]) -> Optional[List[dict]]:
    """the listed findings that together explain EVERY difference observed on a path (each difference must have the shape of
    one listed finding), or None if some difference has no such explanation -- then the path is a fresh violation"""
    if not problems:
        return None
    hit = []
    for pr_ in problems:
        k = next((k for k in known if all(x in pr_ for x in k.get("problem_contains", ["\0"]))), None)
        if k is None:
            return None
        if k not in hit:
            hit.append(k)
    return hit


def write_replay(prop: str, n: int, payload: dict) -> str:
    os.makedirs(REPLAY_DIR, exist_ok=True)
    path = os.path.join(REPLAY_DIR, f"{prop}-{n}.json")
    with open(path, "w") as f:
        json.dump(payload, f, indent=1, default=str)
    return path


class Report:
    def __init__(self, prop: str, tier: str, level: str):
        self.prop, self.tier, self.level = prop, tier, level
        self.t0 = time.time()
        self.violations: List[dict] = []  # {"what":..., "replay": payload}
        self.known_hits: Dict[str, dict] = {}  # finding id -> {"what":..., "count":n}
        self.inconclusive: List[str] = []
        self.errors: List[str] = []
        self.coverage: dict = {}
        self.assumptions: List[str] = []
        self.twins_failed: List[str] = []

    def violation(self, what: str, replay_payload: dict):
        self.violations.append({"what": what, "replay": replay_payload})

    def known(self, finding: dict, n: int = 1):
        e = self.known_hits.setdefault(finding["id"], {"what": finding["what"], "count": 0})
        e["count"] += n

    def finish(self, max_inconclusive_fraction: float = 0.1, total: Optional[int] = None) -> int:
        os.makedirs(EVIDENCE_DIR, exist_ok=True)
        cov = dict(self.coverage)
        cov.setdefault("inconclusive", len(self.inconclusive))
        cov.setdefault("harness_errors", len(self.errors))
        if self.inconclusive:
            cov["inconclusive_samples"] = self.inconclusive[:5]
        if self.errors:
            cov["harness_error_samples"] = self.errors[:5]
        cov["known_findings_matched"] = {k: v["count"] for k, v in self.known_hits.items()}
        try:
            from . import prelude
            cov["process_past"] = dict(prelude.INFO)
        except Exception:  # noqa
            pass
        ev = {
            "property_id": self.prop,
            "tier": self.tier,
            "seed": seed(),
            "level": self.level,
            "coverage": cov,
            "assumptions": self.assumptions,
            "wall_s": round(time.time() - self.t0, 2),
            "violations": len(self.violations),
        }
        with open(os.path.join(EVIDENCE_DIR, f"{self.prop}.json"), "w") as f:
            json.dump(ev, f, indent=1, default=str)
        for fid, e in self.known_hits.items():
            print(f"KNOWN-FINDING: property={self.prop} {fid}: {e['what']} (matched {e['count']}x)")
        code = EXIT_HELD
        for i, v in enumerate(self.violations[:10]):
            path = write_replay(self.prop, i, v["replay"])
            print(f"VIOLATION property={self.prop} replay={path}")
            print(f"  {v['what']}")
            code = EXIT_VIOLATION
        unconfirmed = int(cov.get("unconfirmed_counterexamples") or 0)
        if code == EXIT_HELD and unconfirmed > 0:
            # the solver found real-arithmetic / model-level disagreements that did not reproduce on the real library
            # with doubles and real strings: never a verdict of "held"
            print(f"INCONCLUSIVE property={self.prop} {unconfirmed} solver-found disagreements did not reproduce concretely "
                  f"(see evidence: unconfirmed_counterexamples)", file=sys.stderr)
            code = EXIT_INCONCLUSIVE
        if code == EXIT_HELD:
            tot = total if total is not None else max(1, cov.get("evaluations", 1))
            if self.errors or self.twins_failed:
                for e in (self.errors + self.twins_failed)[:5]:
                    print(f"HARNESS-ERROR property={self.prop} {e}", file=sys.stderr)
                code = EXIT_INCONCLUSIVE
            elif len(self.inconclusive) > max_inconclusive_fraction * tot:
                print(f"INCONCLUSIVE property={self.prop} {len(self.inconclusive)}/{tot} obligations undecided",
                      file=sys.stderr)
                code = EXIT_INCONCLUSIVE
        print(f"{self.prop} [{self.tier}] exit={code} wall={ev['wall_s']}s violations={len(self.violations)} "
              f"known={sum(v['count'] for v in self.known_hits.values())} inconclusive={len(self.inconclusive)} "
              f"errors={len(self.errors)}")
        return code
