import importlib
import json
import os
import sys


def main():
    args = sys.argv[1:]
    if not args:
        print("usage: vcheck <Cxx> [--tier quick|thorough] [--replay file]", file=sys.stderr)
        return 2
    prop = args[0].upper()
    tier = os.environ.get("VERIF_TIER", "quick")
    replay = None
    i = 1
    while i < len(args):
        if args[i] == "--tier":
            tier = args[i + 1]
            i += 2
        elif args[i] == "--replay":
            replay = args[i + 1]
            i += 2
        else:
            i += 1
    if tier not in ("quick", "thorough"):
        tier = "quick"
    # wall-time budget of one task (one program x arguments explored over all paths); exceeding it = out_of_bound
    os.environ.setdefault("VERIF_TASK_BUDGET_S", "12" if tier == "quick" else "150")
    if tier == "thorough":
        # second solver: every 20th obligation is re-decided by cvc5 (read by symx.core at import)
        os.environ.setdefault("VERIF_CVC5_EVERY", "20")
    if replay:
        from . import replay as rp
        return rp.run(prop, replay)
    mod = importlib.import_module(f"checks.{prop.lower()}")
    return mod.main(tier)


if __name__ == "__main__":
    try:
        code = main()
    except SystemExit:
        raise
    except BaseException as e:  # a crash of the harness is never a verdict: exit 2, no VIOLATION line
        import traceback
        traceback.print_exc()
        print(f"HARNESS-ERROR {type(e).__name__}: {e}", file=sys.stderr)
        code = 2
    sys.exit(code)
