import importlib
import json
import os
import sys


def main():
    args = sys.argv[1:]
    if not args:
        print("usage: vcheck <Cxx> [--tier quick|thorough] [--replay file]", file=sys.stderr)
        return 2
    prop = args[0].upper()
    tier = os.environ.get("VERIF_TIER", "quick")
    replay = None
    i = 1
    while i < len(args):
        if args[i] == "--tier":
            tier = args[i + 1]
            i += 2
        elif args[i] == "--replay":
            replay = args[i + 1]
            i += 2
        else:
            i += 1
    if tier not in ("quick", "thorough"):
        tier = "quick"
    # wall-time budget of one task (one program x arguments explored over all paths); exceeding it = out_of_bound
    os.environ.setdefault("VERIF_TASK_BUDGET_S", "12" if tier == "quick" else "150")
    if tier == "thorough":
        # second solver: every 20th obligation is re-decided by cvc5 (read by symx.core at import)
        os.environ.setdefault("VERIF_CVC5_EVERY", "20")
    # "this process has a past": another domain/problem/plan over the same names is handled first (checks/prelude.py); the
    # workers are forked from this process
    from . import prelude
    prelude.run()
    if replay:
        from . import replay as rp
        return rp.run(prop, replay)
    mod = importlib.import_module(f"checks.{prop.lower()}")
    code = mod.main(tier)
    if tier == "thorough" and prop in HASH_SEED_PROPS and not os.environ.get("VERIF_NO_HASHSEED") and code == 0:
        code = _other_hash_seeds(prop, code)
    return code


# The library keeps literals, effects and facts in sets whose iteration order follows Python's per-process string hashing.
# For these properties the thorough tier repeats the whole check in fresh interpreters under fixed other hash seeds (the
# first run uses whatever seed the interpreter was started with); the runs are listed in the evidence.
HASH_SEED_PROPS = ("C01", "C04", "C05", "C08", "C09", "C10", "C14", "C15", "C16", "C17", "C18")
HASH_SEEDS = ("1", "20260927")


def _other_hash_seeds(prop, code):
    import subprocess
    import tempfile
    import time
    from . import runner
    runs = []
    for hs in HASH_SEEDS:
        with tempfile.TemporaryDirectory(prefix="verif_hs_") as ev:
            env = dict(os.environ, PYTHONHASHSEED=hs, VERIF_NO_HASHSEED="1", VERIF_EVIDENCE_DIR=ev,
                       VERIF_REPLAY_DIR=os.path.join(runner.REPLAY_DIR, f"hashseed{hs}"))
            t0 = time.time()
            r = subprocess.run([sys.executable, "-B", "-m", "checks.main", prop, "--tier", "thorough"], env=env,
                               cwd=runner.VERIF, capture_output=True, text=True)
            # pass the child's verdict lines through (VIOLATION / KNOWN-FINDING are re-printed; its summary line is labelled)
            for line in r.stdout.splitlines():
                if line.startswith("VIOLATION") or line.startswith("  "):
                    print(line)
                elif line.startswith(prop + " ["):
                    print(f"[PYTHONHASHSEED={hs}] {line}")
            if r.returncode not in (0, 1):
                sys.stderr.write(r.stderr[-2000:])
            sub = {}
            try:
                sub = json.load(open(os.path.join(ev, f"{prop}.json")))
            except Exception:  # noqa
                pass
            runs.append({"PYTHONHASHSEED": hs, "exit": r.returncode, "wall_s": round(time.time() - t0, 2),
                         "outcomes": (sub.get("coverage") or {}).get("outcomes"), "violations": sub.get("violations")})
            code = max(code, r.returncode)
    path = os.path.join(runner.EVIDENCE_DIR, f"{prop}.json")
    try:
        ev = json.load(open(path))
        ev["coverage"]["other_hash_seed_runs"] = runs
        ev["wall_s"] = round(ev.get("wall_s", 0) + sum(x["wall_s"] for x in runs), 2)
        json.dump(ev, open(path, "w"), indent=1, default=str)
    except Exception as e:  # noqa
        print(f"HARNESS-ERROR could not record the hash-seed runs: {e}", file=sys.stderr)
        code = max(code, 2)
    return code


if __name__ == "__main__":
    try:
        code = main()
    except SystemExit:
        raise
    except BaseException as e:  # a crash of the harness is never a verdict: exit 2, no VIOLATION line
        import traceback
        traceback.print_exc()
        print(f"HARNESS-ERROR {type(e).__name__}: {e}", file=sys.stderr)
        code = 2
    sys.exit(code)
