"""C01 -- domain text is parsed faithfully or rejected, never silently altered.

Translation validation with SMT: the real DomainParser runs on each generated domain text; the
resulting object model is (i) compared with an independent reading of the same text for vocabulary
(types and parents, constants, predicates/functions with ordered names and types, action signatures)
and (ii) its actions are *denoted* (denote.py walks the data model) and compared with the text's
meaning (ref.sem) for every argument tuple: z3 must return unsat for "precondition differs or some
successor atom/fluent differs" over all atoms and fluent values.  For out-of-fragment forms the only
acceptable outcomes are exception at parse, faithful denotation, or exception on the first
ground()/is_applicable()/apply() of the affected action.
"""
import itertools
import json
import random
import time
import traceback
from fractions import Fraction

import z3

import denote
from gen import programs as G
from ref import pddl as rpddl, sem as rsem, sexpr
from . import lib, runner

# ---------------------------------------------------------------------------------------------
# layouts
# ---------------------------------------------------------------------------------------------
def flat_tokens(tree):
    return sexpr.flatten(tree)


def render_layout(tree, kind, rng=None):
    toks = flat_tokens(tree)
    if kind == "canonical":
        return G.pretty(tree)
    if kind == "oneline":
        return sexpr.render(tree)
    if kind == "token_per_line":
        return "\n".join(toks) + "\n"
    if kind == "tabs":
        return "\t".join(toks) + "\n"
    if kind == "crlf":
        return G.pretty(tree).replace("\n", "\r\n")
    if kind == "upper":
        return G.pretty(tree).upper()
    if kind == "comments":
        out = ["; leading comment ( with parens ) and ; another\n"]
        for i, t in enumerate(toks):
            out.append(t)
            out.append(" ; c" + str(i) + " (not (x))\n" if i % 3 == 0 else " ")
        out.append("\n;trailing comment")
        return "".join(out)
    if kind == "comments_glued":
        # the comment starts right after the token, without a blank: `vehicle;all movers (x`
        out = [";leading\n"]
        for i, t in enumerate(toks):
            out.append(t)
            out.append(";c" + str(i) + " all (movers\n" if i % 2 == 0 else "\t")
        return "".join(out)
    raise ValueError(kind)


LAYOUTS = ["oneline", "token_per_line", "tabs", "crlf", "upper", "comments", "comments_glued"]

# ---------------------------------------------------------------------------------------------
# out-of-fragment forms (precondition / effect bodies and declarations)
# ---------------------------------------------------------------------------------------------
OUT_PRE = [
    ("single_literal", ["p", "?x"]),
    ("single_literal_binary", ["q", "?x", "?y"]),
    ("top_level_not", ["not", ["p", "?x"]]),
    ("top_level_or", ["or", ["p", "?x"], ["p", "?y"]]),
    ("top_level_numeric", [">", ["f", "?x"], "1"]),
    ("top_level_forall", ["forall", ["?z", "-", "t1"], ["and", ["p", "?z"]]]),
    ("imply", ["and", ["imply", ["p", "?x"], ["p", "?y"]]]),
    ("imply_then_literal", ["and", ["r"], ["imply", ["p", "?x"], ["p", "?y"]], ["q", "?x", "?y"]]),
    ("exists", ["and", ["exists", ["?z", "-", "t1"], ["q", "?x", "?z"]]]),
    ("exists_and_literal", ["and", ["p", "?x"], ["exists", ["?z", "-", "t1"], ["and", ["q", "?x", "?z"]]]]),
    ("not_compound", ["and", ["not", ["and", ["p", "?x"], ["p", "?y"]]]]),
    ("not_or", ["and", ["not", ["or", ["p", "?x"], ["r"]]]]),
    ("not_numeric", ["and", ["not", [">", ["f", "?x"], "1"]]]),
    ("nary_plus", ["and", [">=", ["+", ["f", "?x"], ["g"], "5"], "0"]]),
    ("nary_times", ["and", [">=", ["*", ["f", "?x"], ["g"], ["f", "?y"]], "0"]]),
    ("unary_minus", ["and", [">=", ["-", ["f", "?x"]], "0"]]),
    # - and / are binary in PDDL; a reader that takes more operands must not invent a meaning silently (left-to-right is the only
    # defensible one)
    ("nary_minus", ["and", [">=", ["-", ["f", "?x"], ["g"], "2"], "0"]]),
    ("nary_divide", ["and", [">=", ["/", ["f", "?x"], ["g"], "2"], "1"]]),
    ("undeclared_predicate", ["and", ["p", "?x"], ["zz", "?x"]]),
    ("undeclared_predicate_first", ["and", ["zz", "?x"], ["p", "?x"]]),
    ("undeclared_function", ["and", [">", ["ff", "?x"], "0"]]),
    ("repeated_argument", ["and", ["q", "?x", "?x"]]),
    ("repeated_argument_neg", ["and", ["not", ["q", "?y", "?y"]], ["p", "?x"]]),
    ("repeated_argument_fluent", ["and", [">", ["h", "?x", "?x"], "0"]]),
    ("repeated_constant", ["and", ["q", "k", "k"], ["p", "?x"]]),
    ("repeated_constant_neg", ["and", ["not", ["q", "k", "k"]]]),
    ("repeated_constant_fluent", ["and", [">", ["h", "k", "k"], "0"]]),
    ("forall_single_literal_body", ["and", ["forall", ["?z", "-", "t1"], ["p", "?z"]]]),
    ("forall_two_vars", ["and", ["forall", ["?z", "?w", "-", "t1"], ["and", ["q", "?z", "?w"]]]]),
    ("forall_nested_or", ["and", ["forall", ["?z", "-", "t1"], ["and", ["or", ["p", "?z"], ["q", "?x", "?z"]]]]]),
    ("forall_in_forall_using_outer_variable", ["and", ["forall", ["?z", "-", "t1"], ["or", ["p", "?z"], ["forall", ["?w", "-", "t3"], ["and", ["q", "?w", "?z"]]]]]]),
    ("equality_with_constant", ["and", ["=", "?x", "k"]]),
    ("wrong_arity_atom", ["and", ["p", "?x", "?y"]]),
    ("unknown_parameter", ["and", ["p", "?w"]]),
    ("empty_or", ["and", ["or"]]),
    ("nested_not_not", ["and", ["not", ["not", ["p", "?x"]]]]),
    ("numeric_neq", ["and", ["!=", ["f", "?x"], "1"]]),
]
OUT_EFF = [
    ("single_literal_effect", ["p", "?x"]),
    ("top_level_not_effect", ["not", ["p", "?x"]]),
    ("top_level_when", ["when", ["p", "?x"], ["r"]]),
    ("scale_up", ["and", ["scale-up", ["f", "?x"], "2"]]),
    ("scale_down", ["and", ["p", "?x"], ["scale-down", ["f", "?x"], "2"]]),
    ("undeclared_predicate_effect", ["and", ["zz", "?x"], ["p", "?y"]]),
    ("undeclared_predicate_delete", ["and", ["not", ["zz", "?x"]]]),
    ("repeated_argument_effect", ["and", ["q", "?x", "?x"]]),
    ("repeated_argument_delete", ["and", ["not", ["q", "?y", "?y"]]]),
    ("repeated_constant_effect", ["and", ["q", "k", "k"]]),
    ("repeated_constant_delete_in_when", ["and", ["when", ["q", "k", "k"], ["not", ["q", "k", "k"]]]]),
    ("nary_plus_effect", ["and", ["increase", ["f", "?x"], ["+", ["g"], "1", "2"]]]),
    ("nary_minus_effect", ["and", ["assign", ["f", "?x"], ["-", "10", ["g"], "2"]]]),
    ("forall_without_when", ["and", ["forall", ["?z", "-", "t1"], ["not", ["p", "?z"]]]]),
    ("forall_and_body", ["and", ["forall", ["?z", "-", "t1"], ["and", ["not", ["p", "?z"]], ["r"]]]]),
    ("when_with_or_condition", ["and", ["when", ["or", ["p", "?x"], ["p", "?y"]], ["r"]]]),
    ("when_with_forall_condition", ["and", ["when", ["forall", ["?z", "-", "t1"], ["and", ["p", "?z"]]], ["r"]]]),
    ("nested_when", ["and", ["when", ["p", "?x"], ["when", ["p", "?y"], ["r"]]]]),
    ("when_inside_and_result", ["and", ["when", ["p", "?x"], ["and", ["r"], ["forall", ["?z", "-", "t1"], ["when", ["p", "?z"], ["s2"]]]]]]),
    ("assign_undeclared_function", ["and", ["assign", ["ff", "?x"], "1"]]),
    ("nested_and_effect", ["and", ["and", ["p", "?x"], ["r"]]]),
    ("nested_and_after_other_effects", ["and", ["p", "?x"], ["not", ["r"]], ["increase", ["f", "?x"], "1"],
                                        ["and", ["q", "?x", "?y"], ["decrease", ["g"], "2"]], ["p", "?y"]]),
    ("nested_and_between_whens", ["and", ["when", ["r"], ["p", "?x"]], ["not", ["q", "?x", "?y"]], ["and", ["p", "?y"]],
                                  ["when", ["p", "?y"], ["not", ["r"]]]]),
    ("equality_effect_junk", ["and", ["=", "?x", "?y"]]),
    ("forall_two_vars_effect", ["and", ["forall", ["?z", "?w", "-", "t1"], ["when", ["q", "?z", "?w"], ["not", ["q", "?z", "?w"]]]]]),
    ("increase_by_fluent_of_quantified", ["and", ["forall", ["?z", "-", "t1"], ["when", ["p", "?z"], ["increase", ["g"], ["f", "?z"]]]]]),
]


# ---------------------------------------------------------------------------------------------
def ref_vocabulary(rd: rpddl.RDomain) -> dict:
    return {
        "types": dict(rd.types),
        "constants": dict(rd.constants),
        "predicates": {n: list(sig) for n, sig in rd.predicates.items()},
        "functions": {n: list(sig) for n, sig in rd.functions.items()},
        "actions": {n: list(a.params) for n, a in rd.actions.items()},
    }


def vocab_diff(a: dict, b: dict):
    out = []
    for k in a:
        if a[k] != b.get(k):
            out.append(f"{k}: library {a[k]} vs text {b.get(k)}")
    return out


def concrete_eval_raises(dom, action_name, args, objects):
    """does the first ground()/is_applicable()/apply() of the affected action raise?"""
    from pddl_plus_parser.models import Operator
    world = lib.World("", objects, domain=dom)
    try:
        op = Operator(dom.actions[action_name], dom, list(args), world.objects)
        op.ground()
    except Exception as e:  # noqa
        return f"ground: {type(e).__name__}"
    for atoms_true in (False, True):
        try:
            rd_atoms = []
            state, _ = world.make_state({}, {}) if not atoms_true else _full_state(world, dom)
            op.is_applicable(state)
            op.apply(state, allow_inapplicable_actions=True)
        except Exception as e:  # noqa
            return f"evaluate: {type(e).__name__}"
    return None


def _full_state(world, dom):
    import itertools as it
    atoms, fl = {}, {}
    allo = {n: o.type for n, o in world.objects.items()}
    for n, c in dom.constants.items():
        allo.setdefault(n, c.type)
    for pn, p in dom.predicates.items():
        doms = [[o for o, t in allo.items() if t.is_sub_type(pt)] for pt in p.signature.values()]
        for tup in it.product(*doms):
            atoms["(" + " ".join([pn] + list(tup)) + ")"] = True
    for fn, f in dom.functions.items():
        doms = [[o for o, t in allo.items() if t.is_sub_type(pt)] for pt in f.signature.values()]
        for tup in it.product(*doms):
            fl["(" + " ".join([fn] + list(tup)) + ")"] = 1.0
    return world.make_state(atoms, fl)


def check_text(task):
    """task: {text, fragment: 'in'|'out', label, const, args_limit, compare_to (canonical text) }"""
    res = {"label": task["label"], "fragment": task["fragment"], "outcome": "held", "detail": "", "queries": 0,
           "solver_s": 0.0, "calls": 0, "class": None}
    text = task["text"]
    eps = lib.lib_eps()
    try:
        try:
            rd = rpddl.read_domain(task.get("meaning_text", text))
        except (rpddl.RefUnsupported, rpddl.RefError, sexpr.ReadError) as e:
            rd = None
            ref_err = f"{type(e).__name__}: {e}"
        try:
            dom = lib.parse_domain(text)
        except Exception as e:  # noqa
            res["class"] = "exception_at_parse"
            if task["fragment"] == "in":
                res["outcome"] = "violation"
                res["detail"] = f"supported construct rejected at parse: {type(e).__name__}: {e}"
            return res
        if rd is None:
            res["outcome"] = "oracle_unsupported"
            res["detail"] = ref_err
            return res
        vd = vocab_diff(denote.vocabulary(dom), ref_vocabulary(rd))
        objects = dict(task.get("objects") or G.OBJECTS)
        vars_ = rsem.Vars()
        sem = rsem.Sem(rd, objects, eps, vars_)
        problems = []
        if vd:
            problems.append(("vocabulary", "; ".join(vd[:3]), None, None))
        for an, ra in rd.actions.items():
            if an not in dom.actions:
                problems.append(("vocabulary", f"action {an} missing from the model", an, None))
                continue
            for args in G.arg_tuples(ra.params, bool(rd.constants), limit=task.get("args_limit", 3)):
                res["calls"] += 1
                try:
                    cs_ref = sem.call(ra, args)
                except rpddl.RefError as e:
                    # the text itself is ill-formed for the oracle (e.g. undeclared predicate): the library must not
                    # accept it silently -> the only acceptable outcome is an exception on evaluation
                    cs_ref = None
                    why = f"text is ill-formed ({e})"
                if cs_ref is not None:
                    try:
                        dn = denote.Denote(dom, objects, eps, vars_)
                        cs_lib = dn.call(dom.actions[an], args)
                    except denote.DenoteError as e:
                        cs_lib = None
                        why = f"model cannot be denoted ({e})"
                    if cs_lib is not None:
                        t0 = time.time()
                        d = denote.equivalent(cs_lib, cs_ref, vars_, assume=z3.And(cs_ref.consistent, cs_ref.defined))
                        res["queries"] += 1
                        res["solver_s"] += time.time() - t0
                        if d is None:
                            continue
                        if d[0] == "unknown":
                            res["outcome"] = "inconclusive"
                            res["detail"] = "equivalence query unknown"
                            return res
                        why = f"{d[0]} differs" + _witness(d[1], vars_)
                problems.append(("meaning", why, an, args))
        if not problems:
            res["class"] = "faithful"
            return res
        # a difference is acceptable only if the first evaluation of the affected action raises
        for kind, why, an, args in problems:
            if kind == "meaning" and an is not None:
                r = concrete_eval_raises(dom, an, args, objects)
                if r is not None:
                    res["class"] = "exception_at_evaluation"
                    continue
            res["outcome"] = "violation"
            res["class"] = "silently_altered"
            res["detail"] = f"{kind}: {why}" + (f" [action {an} args {args}]" if an else "")
            return res
        if task["fragment"] == "in":
            res["outcome"] = "violation"
            res["detail"] = f"supported construct parsed differently and only fails at evaluation: {problems[0][1]}"
        return res
    except Exception as e:  # harness error
        res["outcome"] = "error"
        res["detail"] = f"{type(e).__name__}: {e} {traceback.format_exc()[-900:]}"
        return res


def _witness(model, vars_):
    if model is None:
        return ""
    tr = [a for a, v in vars_.atoms.items() if z3.is_true(model.eval(v, model_completion=True))]
    fl = {}
    for f, v in vars_.fluents.items():
        val = model.eval(v, model_completion=True)
        try:
            x = float(Fraction(val.numerator_as_long(), val.denominator_as_long()))
        except Exception:  # noqa
            continue
        if x != 0:
            fl[f] = x
    return f" e.g. in the state with atoms {tr[:6]} fluents {dict(list(fl.items())[:4])}"


# ---------------------------------------------------------------------------------------------
# task lists
# ---------------------------------------------------------------------------------------------
DECL_VARIANTS = [
    # (label, types, predicates (replace PREDICATES), params of act)
    ("grouped_params", None, None, ["?x", "?y", "-", "t1"]),
    ("untyped_trailing_param", None, None, ["?x", "-", "t1", "?y"]),
    ("interleaved_params", None, None, ["?x", "-", "t3", "?y", "-", "t1"]),
]


def type_forests():
    """4-type forests under permutations and regroupings of their declaration lines"""
    out = []
    lines = [["t3", "-", "t1"], ["t1", "-", "object"], ["t2", "-", "object"], ["t4", "-", "t3"]]
    for perm in itertools.permutations(lines):
        out.append(("types_perm_" + "_".join(l[0] for l in perm), [t for l in perm for t in l]))
    out.append(("types_grouped", ["t1", "t2", "-", "object", "t3", "-", "t1", "t4", "-", "t3"]))
    out.append(("types_children_first_grouped", ["t4", "-", "t3", "t3", "-", "t1", "t1", "t2", "-", "object"]))
    out.append(("types_trailing_untyped", ["t3", "-", "t1", "t4", "-", "t3", "t1", "t2"]))
    out.append(("types_parent_never_declared", ["t3", "t1", "-", "tp", "t4", "-", "t3", "t2"]))
    return out


def tasks_for(tier, seed):
    rng = random.Random(seed * 271 + 9)
    tasks = []
    P2 = G.PARAM_LISTS["P2"]
    # in-fragment programs
    pres = [(pl, True, t) for pl, t in G.core_preconditions()]
    effs = [(pl, True, t) for pl, t in G.core_effects()]
    n = 400 if tier == "quick" else 20000
    pres += G.sampled_programs(seed * 7 + 1, n, "pre")
    effs += G.sampled_programs(seed * 7 + 2, n, "eff")
    progs = []
    for i in range(max(len(pres), len(effs))):
        pl, const, pre = pres[i % len(pres)]
        pl2, const2, eff = effs[i % len(effs)]
        if pl2 != pl:
            eff = ["and"]
        progs.append((pl, (const or const2) if pl2 == pl else const, pre, eff))
    for i, (pl, const, pre, eff) in enumerate(progs):
        tree = G.domain_tree([("act", G.PARAM_LISTS[pl], pre, eff)], const=const)
        label = f"pre {sexpr.render(pre)} eff {sexpr.render(eff)}"
        tasks.append({"text": G.pretty(tree), "fragment": "in", "label": label, "layout": "canonical"})
        if i % 2 == 0:
            lay = LAYOUTS[(i // 2) % len(LAYOUTS)]
            tasks.append({"text": render_layout(tree, lay), "fragment": "in", "label": f"[{lay}] " + label, "layout": lay})
    # every layout on a few rich programs
    rich = [("P2", ["and", ["p", "?x"], ["or", ["not", ["q", "?x", "?y"]], [">", ["f", "?x"], ["+", ["g"], "1.5"]]],
                    ["forall", ["?z", "-", "t1"], ["and", ["not", ["q", "?z", "?x"]]]], ["not", ["=", "?x", "?y"]]],
             ["and", ["not", ["p", "?x"]], ["increase", ["f", "?y"], ["*", ["g"], "2"]],
              ["when", ["and", ["r"], ["<=", ["f", "?x"], "0"]], ["and", ["q", "?x", "?y"], ["assign", ["g"], "3"]]],
              ["forall", ["?z", "-", "t3"], ["when", ["p", "?z"], ["not", ["p", "?z"]]]]])]
    for pl, pre, eff in rich:
        tree = G.domain_tree([("act", G.PARAM_LISTS[pl], pre, eff)], const=True)
        for lay in LAYOUTS:
            tasks.append({"text": render_layout(tree, lay), "fragment": "in", "label": f"[{lay}] rich program", "layout": lay})
    # declaration layouts
    for label, types, preds, params in DECL_VARIANTS:
        d = G.domain_tree([("act", [], ["and", ["p", "?x"], ["q", "?x", "?y"]], ["and", ["not", ["p", "?y"]]])], const=True)
        for sec in d:
            if isinstance(sec, list) and sec and sec[0] == ":action":
                sec[sec.index(":parameters") + 1] = params
        tasks.append({"text": G.pretty(d), "fragment": "in", "label": "decl " + label, "layout": "canonical"})
    for label, types in type_forests():
        extra = [["s4", "?a", "-", "t4"]]
        d = G.domain_tree([("act", P2, ["and", ["p", "?x"]], ["and", ["forall", ["?z", "-", "t1"], ["when", ["p", "?z"], ["not", ["p", "?z"]]]]])],
                          const=True, types=types, extra_predicates=extra)
        # with an object of the deepest type: the quantifier over t1 ranges over it exactly when the closure is right
        tasks.append({"text": G.pretty(d), "fragment": "in", "label": "decl " + label, "layout": "canonical",
                      "objects": dict(G.OBJECTS, o4="t4") if "tp" not in types else None})
    # constants after predicates; predicates with grouped/untyped parameters; functions with '- number'
    d = G.domain_tree([("act", P2, ["and", ["p", "k"]], ["and", ["q", "?x", "k"]])], const=True)
    ci = next(i for i, s in enumerate(d) if isinstance(s, list) and s[0] == ":constants")
    c = d.pop(ci)
    d.insert(ci + 1, c)
    tasks.append({"text": G.pretty(d), "fragment": "in", "label": "decl constants_after_predicates", "layout": "canonical"})
    d = G.domain_tree([("act", P2, ["and", ["q2", "?x", "?y"]], ["and", ["u2", "?x"]])], const=False,
                      extra_predicates=[["q2", "?a", "?b", "-", "t1"], ["u2", "?a"]])
    tasks.append({"text": G.pretty(d), "fragment": "in", "label": "decl grouped_and_untyped_predicate_parameters", "layout": "canonical"})
    # constants in several groups: a type that closes two separate groups, a second type in between, unused constants,
    # a trailing name without a type (root type)
    for label, consts in (("constants_two_groups_same_type", ["k", "-", "t1", "c2", "-", "t2", "c3", "c4", "-", "t1"]),
                          ("constants_subtype_and_root", ["k", "-", "t1", "c5", "-", "t3", "c6", "-", "object"]),
                          ("constants_trailing_untyped", ["k", "-", "t1", "c7", "c8"])):
        d = G.domain_tree([("act", P2, ["and", ["p", "k"]], ["and", ["q", "?x", "k"]])], const=True)
        for sec in d:
            if isinstance(sec, list) and sec and sec[0] == ":constants":
                sec[1:] = consts
        tasks.append({"text": G.pretty(d), "fragment": "in", "label": "decl " + label, "layout": "canonical"})
    # out-of-fragment forms
    for label, pre in OUT_PRE:
        tree = G.domain_tree([("act", P2, pre, ["and", ["r"]])], const=True)
        tasks.append({"text": G.pretty(tree), "fragment": "out", "label": "out-pre " + label + " " + sexpr.render(pre),
                      "layout": "canonical"})
    for label, eff in OUT_EFF:
        tree = G.domain_tree([("act", P2, ["and", ["p", "?x"]], eff)], const=True, extra_predicates=[["s2"]])
        tasks.append({"text": G.pretty(tree), "fragment": "out", "label": "out-eff " + label + " " + sexpr.render(eff),
                      "layout": "canonical"})
    # either types / missing sections
    d = G.domain_tree([("act", [("?x", "t1")], ["and", ["p", "?x"]], ["and"])], const=True)
    tasks.append({"text": G.pretty(d).replace("(?x - t1)", "(?x - (either t1 t2))"), "fragment": "out", "label": "out-decl either",
                  "layout": "canonical"})
    return tasks


def twin():
    """a deliberately wrong 'text' meaning must be refuted: model of (and (p ?x)) against text (and (not (p ?x)))"""
    tree_a = G.domain_tree([("act", G.PARAM_LISTS["P2"], ["and", ["p", "?x"]], ["and", ["r"]])], const=True)
    tree_b = G.domain_tree([("act", G.PARAM_LISTS["P2"], ["and", ["not", ["p", "?x"]]], ["and", ["r"]])], const=True)
    r = check_text({"text": G.pretty(tree_a), "meaning_text": G.pretty(tree_b), "fragment": "in", "label": "TWIN"})
    return r["outcome"] == "violation"


def main(tier):
    rep = runner.Report("C01", tier, "translation_validation")
    tasks = tasks_for(tier, runner.seed())
    results = runner.pmap(check_text, tasks)
    from collections import Counter
    c, classes = Counter(), Counter()
    queries = calls = 0
    solver_s = 0.0
    samples = []
    known = runner.load_known("C01")
    disagreements = 0
    for t, r in zip(tasks, results):
        c[r["outcome"]] += 1
        classes[(r["fragment"], r["class"])] += 1
        queries += r["queries"]
        calls += r["calls"]
        solver_s += r["solver_s"]
        if r["outcome"] == "violation":
            disagreements += 1
            k = next((k for k in known if k.get("match") and k["match"] in t["label"]
                      and all(x in r["detail"] for x in k.get("detail_contains", []))), None)
            if k is not None:
                rep.known(k)
                continue
            rep.violation(f"{t['label']}: {r['detail']}", {"property": "C01", "kind": "c01", "task": t, "detail": r["detail"]})
        elif r["outcome"] == "inconclusive":
            rep.inconclusive.append(f"{t['label']}: {r['detail']}")
        elif r["outcome"] == "error":
            rep.errors.append(f"{t['label']}: {r['detail']}")
        elif r["outcome"] == "held" and len(samples) < 5 and r["calls"] >= 2 and len(samples) * 40 < len(tasks):
            samples.append({"program": t["label"], "layout": t.get("layout"), "class": r["class"], "calls": r["calls"],
                            "obligation": "unsat( consistent /\\ (pre_model != pre_text \\/ some successor atom/fluent differs) )"})
    if not twin():
        rep.twins_failed.append("vacuity twin (model compared with a different text) was not refuted")
    rep.coverage.update({
        "programs": len(tasks), "disagreements_checked": disagreements, "samples": samples or [{"note": "none"}],
        "evaluations": calls, "distinct_nontrivial": len({t["text"] for t in tasks}),
        "rule": "one program = one domain text (action body x declaration layout x text layout); one evaluation = one (action, "
                "argument tuple) equivalence query over all states; distinct = distinct texts",
        "outcomes": dict(c), "classification": {f"{k[0]}:{k[1]}": v for k, v in classes.items()},
        "smt_queries": queries, "solver_seconds": round(solver_s, 2), "exhaustive": False,
        "bounds": {"bodies": "gen.programs core + sampled preconditions/effects (see C02/C03), 3 argument tuples per action",
                   "layouts": LAYOUTS, "declarations": "grouped/untyped/interleaved parameters, 24 permutations + regroupings of a "
                                                       "4-type forest, constants after predicates",
                   "out_of_fragment": [l for l, _ in OUT_PRE] + [l for l, _ in OUT_EFF] + ["either"],
                   "outside": ":process/:event, durative actions, formulas deeper than the generators' bound"},
    })
    rep.assumptions += ["ref.pddl/ref.sem as the meaning of the text", "denote.py reads the model's public attributes faithfully",
                        "universe U (objects o1 o2 o3 u1, constant k) for the quantifier expansions"]
    return rep.finish(total=len(tasks))


def replay(payload, path):
    r = check_text(payload["task"])
    print(json.dumps({k: r[k] for k in ("outcome", "class", "detail")}, indent=1))
    if r["outcome"] == "violation":
        print(f"VIOLATION property=C01 replay={path}")
        return 1
    print("does not reproduce")
    return 0
