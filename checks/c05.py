"""C05 -- problem text is parsed faithfully and ill-formed facts are rejected.

Bounded symbolic execution of the real ProblemParser.parse_problem (through the real tokenizer, from a real scratch
file) on problem TEXTS written by this harness (not by the library's exporter): which pool facts are listed in :init is
decided by symbolic booleans (the text is assembled per path), fluent values are symbolic reals that travel through
the text as placeholder tokens, and -- separately -- numerals in the concrete notations the property names (integer,
decimal, negative, exponent) are compared exactly.  Object-list layouts, goals and names are enumerated.

(a) faithful: the parsed problem has exactly the declared objects with their types, exactly the listed facts, exactly
    the listed fluents with -- decided by z3 under the path condition -- the listed values, exactly the goal literals
    and numeric goal conditions.
(b) rejection: every single-point corruption of a valid problem (undeclared predicate / function, wrong arity,
    undeclared object, object of a non-conforming type, in :init and in the goal; another domain's name) must raise.
"""
import json
import os
import random
import traceback
from collections import Counter
from fractions import Fraction
from pathlib import Path

import z3

from gen import programs as G
from ref import sexpr
from symx import core
from symx.core import Ctx, Stats, explore, Inconclusive, Unsupported, PathLimit, SymBool, SymReal
from . import lib, runner, callsym, c09

DOMAIN_TEXT = c09.DOMAIN_TEXT
ATOM_POOL = c09.ATOM_POOL
FLUENT_POOL = c09.FLUENT_POOL
GOALS = c09.GOALS
# (layout name, text of the :objects body, declared objects)
LAYOUTS = [
    ("one per group", "o1 - t1 o2 - t1 o3 - t3 u1 - t2", {"o1": "t1", "o2": "t1", "o3": "t3", "u1": "t2"}),
    ("grouped", "o1 o2 - t1 o3 - t3 u1 - t2", {"o1": "t1", "o2": "t1", "o3": "t3", "u1": "t2"}),
    ("grouped, lines and comments", "o1\n   o2 - t1 ; two of them\n o3 - t3\n\tu1 - t2", {"o1": "t1", "o2": "t1", "o3": "t3", "u1": "t2"}),
    ("typed as object", "o1 o2 - t1 o3 - t3 u1 - t2 x1 x2 - object", {"o1": "t1", "o2": "t1", "o3": "t3", "u1": "t2", "x1": "object", "x2": "object"}),
    ("trailing untyped names", "o1 o2 - t1 o3 - t3 u1 - t2 x1 x2", {"o1": "t1", "o2": "t1", "o3": "t3", "u1": "t2", "x1": "object", "x2": "object"}),
    ("upper case", "O1 O2 - T1 o3 - t3 U1 - t2", {"o1": "t1", "o2": "t1", "o3": "t3", "u1": "t2"}),
    ("root type first", "x1 - object o1 o2 - t1 o3 - t3 u1 - t2", {"x1": "object", "o1": "t1", "o2": "t1", "o3": "t3", "u1": "t2"}),
]
NUMERALS = ["5", "0", "-3", "2.50", "0.125", "-0.5", "1e2", "1.5e-1", "-2E3", "007", "+4", "1.25e-05", "4e-08", "0.00004", "123456789.125",
            "1.23456", "-1.00005"]
_N = [0]



AWKWARD = (0.123456789, 1234.56789012, -0.000123456789)  # added to a counterexample's values when it does not reproduce as is:
# a disagreement that needs many significant digits (number printing) is real all the same, and is reported with the
# values that reproduce it

def _scratch():
    _N[0] += 1
    return Path(lib.tmpdir()) / f"c05_{os.getpid()}_{_N[0]}.pddl"


def problem_text(task, listed_atoms, fluent_tokens):
    init = " ".join(listed_atoms + [f"(= {f} {tok})" for f, tok in fluent_tokens.items()])
    goal = " ".join(sexpr.render(g) for g in task["goal"])
    return (f"(define (problem {task.get('name', 'pu')})\n  (:domain {task.get('domain', c09.DOMAIN_NAME)})\n  (:objects {task['objects_text']})\n"
            f"  (:init {init})\n  (:goal (and {goal})))\n")


def parse_text(text, symbolic, then_other=None):
    """then_other: a second problem text parsed afterwards with the SAME Domain object (other values for the same fluents, no
    facts): the problem parsed first must still say what ITS text says"""
    from pddl_plus_parser.lisp_parsers import ProblemParser
    import pddl_plus_parser.lisp_parsers.problem_parser as ppm
    domain = lib.parse_domain(DOMAIN_TEXT)
    path = _scratch()
    path.write_text(text)
    try:
        if symbolic:
            ppm.float = core.sym_float
        try:
            first = ProblemParser(path, domain).parse_problem()
        finally:
            if symbolic:
                del ppm.float
        if then_other is not None:
            path.write_text(then_other)
            try:
                ProblemParser(path, domain).parse_problem()
            except Exception:  # noqa -- the second problem is not judged
                pass
        return first
    finally:
        try:
            os.unlink(path)
        except OSError:
            pass


def _other_text(task):
    """another problem of the same domain: the same fluents with other values (tasks with an even number of fluents only, so that
    both histories - with and without a later parse - are exercised)"""
    if len(task["fluents"]) % 2:
        return None
    return problem_text(dict(task, goal=[], name="later"), [], {f: "7.5" for f in task["fluents"]})


def run_faithful(task):
    res = {"task": task, "outcome": "held", "paths": 0, "obligations": 0, "cex": None, "reached": 0}
    stats = Stats()
    try:
        va = {a: z3.Bool("A" + a) for a in task["atoms"]}
        xf = {f: z3.Real("X" + f) for f in task["fluents"]}
        spec = dict(task, objects=task["objects_decl"])

        def fn(ctx: Ctx):
            truth = {a: bool(SymBool(v)) for a, v in va.items()}  # which facts the text lists: a solver-decided fork each
            values = {f: SymReal(v) for f, v in xf.items()}
            text = problem_text(task, [a for a, t in truth.items() if t], {f: v.tag() for f, v in values.items()})
            return truth, values, parse_text(text, symbolic=True, then_other=_other_text(task))

        def on_path(ctx: Ctx, pr):
            if pr.kind == "exc":
                _cex(ctx, res, task, va, xf, [f"a valid problem text was rejected: {type(pr.value).__name__}: {pr.value}"], z3.BoolVal(True))
                return
            res["reached"] += 1
            truth, values, back = pr.value
            problems, obligations = [], []
            c09.compare_spec(spec, truth, values, back, problems, obligations)
            res["obligations"] += len(obligations) + 6
            if problems:
                _cex(ctx, res, task, va, xf, problems, z3.BoolVal(True))
                return
            post = z3.And([z3.BoolVal(True)] + [o for _, o in obligations])
            r = ctx.check(z3.Not(post), expect_unsat=True)
            if r == "unknown":
                raise Inconclusive("obligation")
            if r == "sat":
                bad = [d for d, o in obligations if ctx.check(z3.Not(o)) == "sat"]
                _cex(ctx, res, task, va, xf, ["values differ from the text: " + "; ".join(bad[:3])], z3.Not(post))

        explore(fn, on_path, stats=stats, max_paths=task.get("max_paths", 2000), timeout_ms=5000, time_budget_s=core.task_budget())
        if res["reached"] == 0 and res["outcome"] == "held":
            res["outcome"] = "vacuous"
    except Inconclusive as e:
        res["outcome"], res["detail"] = "inconclusive", str(e)
    except PathLimit as e:
        if res["outcome"] != "violation":
            res["outcome"], res["detail"] = "out_of_bound", str(e)
    except Unsupported as e:
        res["outcome"], res["detail"] = "inconclusive", f"unsupported: {e}"
    except Exception as e:  # noqa
        res["outcome"], res["detail"] = "error", f"{type(e).__name__}: {e} {traceback.format_exc()[-900:]}"
    res["paths"] = stats.paths
    res["stats"] = stats.as_dict()
    return res


def concrete_faithful(task, atoms, fls):
    """the unshimmed parser on the concrete text (real float())"""
    spec = dict(task, objects=task["objects_decl"])
    text = problem_text(task, [a for a, t in atoms.items() if t], {f: repr(v) for f, v in fls.items()})
    out = {"text": text}
    try:
        back = parse_text(text, symbolic=False, then_other=_other_text(task))
    except Exception as e:  # noqa
        out["observed"] = f"{type(e).__name__}: {e}"
        out["problems"] = [f"a valid problem text was rejected: {type(e).__name__}: {e}"]
        out["disagree"] = True
        return out
    problems, obligations = [], []
    c09.compare_spec(spec, atoms, fls, back, problems, obligations)
    for d, o in obligations:
        if not z3.is_true(z3.simplify(o)):
            problems.append(d + " differs")
    out["problems"] = problems[:6]
    out["disagree"] = bool(problems)
    return out


def _cex(ctx, res, task, va, xf, problems, neg):
    if res["outcome"] == "violation":
        return
    model = callsym.nice_model(ctx, neg, list(xf.values()))
    if model is None:
        res["unconfirmed"] = res.get("unconfirmed", 0) + 1
        return
    atoms = {a: bool(z3.is_true(model.eval(v, model_completion=True))) for a, v in va.items()}
    fls = {f: lib.to_float(core.zval(model, v)) for f, v in xf.items()}
    rp = concrete_faithful(task, atoms, fls)
    if not rp.get("disagree"):
        for delta in AWKWARD:
            shifted = {k_: v_ + delta for k_, v_ in fls.items()}
            rp2 = concrete_faithful(task, atoms, shifted)
            if rp2.get("disagree"):
                rp, fls = rp2, shifted
                break
    if rp.get("disagree"):
        res["outcome"] = "violation"
        res["cex"] = {"what": "; ".join(problems[:3]), "atoms": atoms, "fluents": fls, "replay": callsym._jsonable(rp),
                      "all_problems": list(rp.get("problems") or problems)}
    else:
        res["unconfirmed"] = res.get("unconfirmed", 0) + 1
        res.setdefault("unconfirmed_sample", {"what": "; ".join(problems[:3]), "atoms": atoms, "fluents": fls})


# ---------------------------------------------------------------------------------------------------------------------
# concrete numerals and single-point corruptions (no symbolic dimension: plain differential runs, reported as such)
# ---------------------------------------------------------------------------------------------------------------------
def run_numeral(task):
    res = {"task": task, "outcome": "held", "paths": 1, "obligations": 1, "cex": None, "reached": 1}
    tok = task["numeral"]
    t = {"objects_text": LAYOUTS[1][1], "goal": []}
    text = problem_text(t, ["(p o1)"], {"(f o1)": tok, "(g)": tok})
    try:
        back = parse_text(text, symbolic=False)
        got = {lib.fluent_name(f): f.value for f in back.initial_state_fluents.values()}
        want = Fraction(float(tok))  # the double nearest to the numeral
        bad = [k for k in ("(f o1)", "(g)") if k not in got or Fraction(got[k]) != want]
        if bad or len(got) != 2:
            res["outcome"] = "violation"
            res["cex"] = {"what": f"numeral {tok!r}: parsed fluents {got}, expected the value {float(want)}", "text": text,
                          "all_problems": [f"numeral {tok}"]}
    except Exception as e:  # noqa
        res["outcome"] = "violation"
        res["cex"] = {"what": f"numeral {tok!r} in a valid problem was rejected: {type(e).__name__}: {e}", "text": text,
                      "all_problems": [f"numeral {tok} rejected"]}
    return res


CORRUPTIONS = [
    ("init fact over an undeclared predicate", {"init": "(zz o1)"}),
    ("init fluent over an undeclared function", {"init": "(= (zz o1) 1)"}),
    ("init fact with one argument too many", {"init": "(p o1 o2)"}),
    ("init fact with one argument too few", {"init": "(q o1)"}),
    ("zero-arity fact given an argument", {"init": "(r o1)"}),
    ("init fluent with one argument too many", {"init": "(= (f o1 o2) 1)"}),
    ("init fluent with one argument too few", {"init": "(= (h o1) 1)"}),
    ("zero-arity fluent given an argument", {"init": "(= (g o1) 1)"}),
    ("init fact over an undeclared object", {"init": "(p o9)"}),
    ("init fluent over an undeclared object", {"init": "(= (f o9) 1)"}),
    ("init fact over an undeclared object in a position of the root type", {"init": "(ob o9)"}),
    ("init fact over an undeclared object in an untyped position", {"init": "(un o9)"}),
    ("goal literal over an undeclared object in a position of the root type", {"goal": "(ob o9)"}),
    ("goal literal over an undeclared object in an untyped position", {"goal": "(un zz)"}),
    ("init fact whose object has a non-conforming type", {"init": "(p u1)"}),
    ("init fact whose object has a supertype of the required type", {"init": "(s x1)", "objects": "o1 o2 - t1 o3 - t3 u1 - t2 x1 - object"}),
    ("init fluent whose object has a non-conforming type", {"init": "(= (f u1) 1)"}),
    # round 20: the domain constant k - t1 where another type is required (a type check that exempts constants)
    ("init fact whose domain constant has a non-conforming type", {"init": "(s k)"}),
    ("init fact whose domain constant has a supertype of the required type", {"init": "(m k o1)"}),
    ("goal literal whose domain constant has a non-conforming type", {"goal": "(s k)"}),
    ("goal literal whose domain constant has a supertype of the required type", {"goal": "(m k o1)"}),
    ("init fluent over a constant and an object of a non-conforming type", {"init": "(= (h k u1) 1)"}),
    ("second argument of a non-conforming type", {"init": "(q o1 u1)"}),
    ("first argument of a supertype of the required type", {"init": "(m o1 o3)"}),
    ("repeated object that fits the last position only", {"init": "(m o1 o1)"}),
    ("repeated object that fits the first position only", {"init": "(m2 o1 o1)", "note": "m2 is not declared: also undeclared"}),
    ("goal literal with a repeated object that fits the last position only", {"goal": "(m o2 o2)"}),
    ("goal literal over an undeclared predicate", {"goal": "(zz o1)"}),
    ("goal literal with wrong arity", {"goal": "(q o1)"}),
    ("goal literal over an undeclared object", {"goal": "(p o9)"}),
    ("goal literal whose object has a non-conforming type", {"goal": "(p u1)"}),
    ("numeric goal over an undeclared function", {"goal": "(>= (zz o1) 1)"}),
    ("the problem names another domain", {"domain": "other"}),
    ("the problem names a prefix of the domain's name", {"domain": "uni"}),
    ("the problem names a suffix of the domain's name", {"domain": "dom2"}),
    ("the problem names an inner part of the domain's name", {"domain": "i-d"}),
    ("the problem names an extension of the domain's name", {"domain": "uni-dom22"}),
    ("object of an undeclared type", {"objects": "o1 o2 - t1 o3 - t9 u1 - t2"}),
    ("fluent assignment without a value", {"init": "(= (f o1))"}),
]


def run_corruption(task):
    res = {"task": task, "outcome": "held", "paths": 1, "obligations": 1, "cex": None, "reached": 1}
    what, ch = task["what"], task["change"]
    t = {"objects_text": ch.get("objects", LAYOUTS[1][1]), "goal": [], "domain": ch.get("domain", c09.DOMAIN_NAME)}
    base_init = ["(p o1)", "(q o1 o2)"]
    text = problem_text(t, base_init + ([ch["init"]] if "init" in ch else []), {"(f o1)": "1", "(g)": "2"})
    if "goal" in ch:
        text = text.replace("(:goal (and ))", f"(:goal (and (p o1) {ch['goal']}))")
    # the uncorrupted twin must be accepted (otherwise the rejection proves nothing)
    twin_text = problem_text({"objects_text": LAYOUTS[1][1], "goal": []}, base_init, {"(f o1)": "1", "(g)": "2"})
    try:
        parse_text(twin_text, symbolic=False)
    except Exception as e:  # noqa
        res["outcome"], res["detail"] = "error", f"the valid twin was rejected: {type(e).__name__}: {e}"
        return res
    try:
        back = parse_text(text, symbolic=False)
    except Exception as e:  # noqa
        res["rejected_with"] = type(e).__name__
        return res
    res["outcome"] = "violation"
    res["cex"] = {"what": f"{what}: accepted without an error", "text": text, "all_problems": [f"accepted: {what}"],
                  "parsed": {"objects": sorted(back.objects), "facts": sorted(c09.facts_of(back.initial_state_predicates).elements()),
                             "fluents": sorted(lib.fluent_name(f) for f in back.initial_state_fluents.values()),
                             "goal": [p.untyped_representation for p in back.goal_state_predicates]}}
    return res


def _dispatch(t):
    return {"faithful": run_faithful, "numeral": run_numeral, "corruption": run_corruption}[t["kind"]](t)


def tasks_for(tier, seed):
    rng = random.Random(seed * 211 + 3)
    tasks = []
    k_atoms = 5 if tier == "quick" else 8
    for li, (lname, otext, odecl) in enumerate(LAYOUTS):
        for gi in ([li % len(GOALS), (li + 3) % len(GOALS)] if tier == "quick" else range(len(GOALS))):
            tasks.append({"kind": "faithful", "layout": lname, "objects_text": otext, "objects_decl": odecl,
                          "atoms": ATOM_POOL[:k_atoms] if gi % 2 else ATOM_POOL[-k_atoms:], "fluents": FLUENT_POOL[: 2 + gi % 4],
                          "goal": GOALS[gi]})
    tasks.append({"kind": "faithful", "layout": "grouped", "objects_text": LAYOUTS[1][1], "objects_decl": LAYOUTS[1][2], "atoms": [],
                  "fluents": [], "goal": []})
    n = 40 if tier == "quick" else 4000
    while len([t for t in tasks if t["kind"] == "faithful"]) < n:
        lname, otext, odecl = rng.choice(LAYOUTS)
        tasks.append({"kind": "faithful", "layout": lname, "objects_text": otext, "objects_decl": odecl,
                      "atoms": rng.sample(ATOM_POOL, rng.randint(1, k_atoms)), "fluents": rng.sample(FLUENT_POOL, rng.randint(0, 4)),
                      "goal": rng.choice(GOALS), "name": rng.choice(["pu", "p-1", "problem_2"])})
    for tok in NUMERALS:
        tasks.append({"kind": "numeral", "numeral": tok})
    for what, ch in CORRUPTIONS:
        tasks.append({"kind": "corruption", "what": what, "change": ch})
    return tasks


def twin():
    """the comparison must notice a fact that the text lists and the parsed problem lacks"""
    t = {"objects_text": LAYOUTS[1][1], "objects_decl": LAYOUTS[1][2], "goal": [], "atoms": ["(p o1)", "(r)"], "fluents": []}
    back = parse_text(problem_text(t, ["(p o1)"], {}), symbolic=False)
    problems, obligations = [], []
    c09.compare_spec(dict(t, objects=t["objects_decl"]), {"(p o1)": True, "(r)": True}, {}, back, problems, obligations)
    return bool(problems)


def main(tier):
    rep = runner.Report("C05", tier, "other")
    tasks = tasks_for(tier, runner.seed())
    results = runner.pmap(_dispatch, tasks)
    c, agg = Counter(), Counter()
    paths = obligations = nontrivial = unconfirmed = 0
    solver_s = 0.0
    samples = []
    rejected_with = Counter()
    known = runner.load_known("C05")
    for t, r in zip(tasks, results):
        c[f"{t['kind']}:{r['outcome']}"] += 1
        paths += r["paths"]
        obligations += r["obligations"]
        unconfirmed += r.get("unconfirmed", 0)
        if r.get("rejected_with"):
            rejected_with[r["rejected_with"]] += 1
        st = r.get("stats") or {}
        for k in runner.STAT_KEYS:
            agg[k] += st.get(k, 0)
        solver_s += st.get("solver_seconds", 0.0)
        if r["paths"] >= 2:
            nontrivial += 1
        if t["kind"] == "faithful":
            label = json.dumps({"layout": t["layout"], "objects": t["objects_text"], "atoms": t["atoms"], "fluents": t["fluents"],
                                "goal": [sexpr.render(g) for g in t["goal"]], "name": t.get("name", "pu")})
        else:
            label = json.dumps({k: v for k, v in t.items()})
        if r["outcome"] == "violation":
            cx = r["cex"]
            detail = f"{label}: {cx['what']}"
            kfs = runner.attribute_problems(known, cx.get("all_problems") or [])
            if kfs is not None:
                for kf in kfs:
                    rep.known(kf, 1)
            else:
                rep.violation(detail, {"property": "C05", "kind": "c05", "task": t, "cex": cx})
        elif r["outcome"] == "inconclusive":
            rep.inconclusive.append(f"{label}: {r.get('detail')}")
        elif r["outcome"] == "error":
            rep.errors.append(f"{label}: {r.get('detail')}")
        elif len(samples) < 3 and r["paths"] >= 8 and r["outcome"] == "held":
            samples.append({"task": json.loads(label), "paths": r["paths"], "obligations": r["obligations"],
                            "obligation_form": "pc /\\ not(forall fluents: parsed value == value in the text) unsat; objects, facts, "
                                               "fluent argument lists, goal literals and numeric goals compared per path"})
    if not twin():
        rep.twins_failed.append("vacuity twin: a missing fact was not noticed")
    q = dict(agg)
    q["solver_seconds"] = round(solver_s, 2)
    rep.coverage.update({
        "evaluations": len(tasks), "distinct_nontrivial": nontrivial,
        "rule": "faithful: one evaluation = one (object-list layout, atom pool, fluent set, goal, name) explored over all feasible "
                "paths, the listing of every pool atom and every fluent value symbolic; numeral / corruption: one concrete run each "
                "(no symbolic dimension, reported separately); non-trivial = >=2 paths",
        "samples": samples or [{"note": "none"}], "outcomes": dict(c), "paths": paths, "obligations": obligations, "queries": q,
        "corruptions_rejected_with": dict(rejected_with), "concrete_numerals": NUMERALS,
        "unconfirmed_counterexamples": unconfirmed, "vacuity_twin_refuted": not rep.twins_failed, "exhaustive": False,
        "bounds": {"init": "<=5/7 pool atoms (unary, binary, repeated argument, zero-arity, subtype object, constant argument, second "
                           "type) listed or not (symbolic); 0-4 fluents (unary, zero-arity, two arguments, repeated argument, constant "
                           "argument) with symbolic values", "layouts": [l[0] for l in LAYOUTS], "goals": "6 (empty, literals, numeric, mixed)",
                   "corruptions": [w for w, _ in CORRUPTIONS],
                   "outside": "repr/float of doubles for the symbolic values (placeholder tokens; replayed with real floats); "
                              ":metric, private objects, problems shipped with the repository (concrete files)"},
        "functions_executed_symbolically": ["PDDLTokenizer (file mode) .parse", "ProblemParser.parse_problem/parse_domain_name/parse_objects/"
                                            "parse_initial_state/parse_state_component/parse_grounded_predicate/_validate_object_types/"
                                            "parse_grounded_numeric_fluent/parse_goal_state", "construct_expression_tree (goal)"],
        "shims": ["a symbolic value is written into the text as a placeholder token", "float(token) in problem_parser -> the value"],
    })
    rep.assumptions += ["repr(float) is injective on values and float(repr(x)) == x (symbolic values travel as placeholder tokens)",
                        "reference = the text's own description (declared objects, facts listed on the path, value variables, goal trees)"]
    return rep.finish(total=len(tasks))


def replay(payload, path):
    t, cx = payload["task"], payload["cex"]
    if t["kind"] == "faithful":
        rp = concrete_faithful(t, cx["atoms"], cx["fluents"])
        print(json.dumps(callsym._jsonable(rp), indent=1))
        bad = rp["disagree"]
    else:
        r = _dispatch(t)
        print(r["outcome"], json.dumps(r.get("cex"), indent=1, default=str))
        bad = r["outcome"] == "violation"
    if bad:
        print(f"VIOLATION property=C05 replay={path}")
        return 1
    print("does not reproduce")
    return 0
