"""C18 -- renaming an action's parameters does not change what the action does.

For each action of the generated families and each injective renaming m (fresh names, permutations
of the existing names, chains ?x->?y->?n) the real Action.change_signature(m) is applied to a
freshly parsed action A, giving A'.  Then
  (1) A'.signature has the same length, the names m(old) in the same order, the same types;
  (2) translation validation: denote(A')(args) == meaning of the original text for every argument
      tuple, decided by z3 over all atoms and fluent values (evaluator defects cannot mask a
      renaming defect);
  (3) differential symbolic execution: Operator(A').is_applicable / apply on a symbolic state
      against the meaning of the original text (C02/C03 machinery).
"""
import itertools
import json
import random
import time
import traceback

import z3

import denote
from gen import programs as G
from ref import pddl as rpddl, sem as rsem, sexpr
from . import lib, runner, callsym


def renamings(params, tier):
    old = [n for n, _ in params]
    pool = old + ["?n1", "?n2"]
    out = []
    for tgt in itertools.permutations(pool, len(old)):
        out.append(dict(zip(old, tgt)))
    if tier == "quick":
        # identity, all-fresh, swap / rotation, chain, partial overlap
        keep = []
        for m in out:
            vals = list(m.values())
            fixed_points = [k for k, v in m.items() if k == v]
            kind = ("id" if vals == old else "fresh" if not set(vals) & set(old) else
                    "perm" if set(vals) == set(old) else
                    # some parameters keep their names while others get fresh ones (first / last parameter kept)
                    ("partial_first_kept" if fixed_points[0] == old[0] else "partial_later_kept")
                    if fixed_points and not (set(vals) - set(fixed_points)) & set(old) else "chain")
            keep.append((kind, m))
        pick, seen = [], {}
        for kind, m in keep:
            if seen.get(kind, 0) < (1 if kind in ("id",) else 2):
                pick.append(m)
                seen[kind] = seen.get(kind, 0) + 1
        if len(old) >= 3:
            # the cyclic rotations and a chain through all parameters: every member of a container lands on another member
            rot = {old[i]: old[(i + 1) % len(old)] for i in range(len(old))}
            rot2 = {old[i]: old[(i - 1) % len(old)] for i in range(len(old))}
            chain = {old[i]: (old[i + 1] if i + 1 < len(old) else "?n1") for i in range(len(old))}
            for m in (rot, rot2, chain):
                if m not in pick:
                    pick.append(m)
        return pick
    if len(old) >= 3:
        # 60 injective maps for three parameters: the permutations of the old names, the chains, and a sample of the rest
        perms = [m for m in out if set(m.values()) == set(old)]
        chains = [m for m in out if set(m.values()) & set(old) and set(m.values()) != set(old)]
        partial = [m for m in chains if any(k == v for k, v in m.items())
                   and not ({v for k, v in m.items() if k != v} & set(old))]
        return perms + chains[:12] + [m for m in partial if m not in chains[:12]] + [m for m in out if not set(m.values()) & set(old)][:2]
    return out


def full_map(m, extra=("?z", "k")):
    """change_signature looks every argument name up in the map: quantified variables and constants map to themselves"""
    mm = dict(m)
    for e in extra:
        mm.setdefault(e, e)
    return mm


def programs(tier, seed):
    out = []
    P2, P3, P1 = "P2", "P3", "P1"
    fixed = [
        (P2, ["and", ["q", "?x", "?y"], ["not", ["p", "?y"]]], ["and", ["not", ["q", "?x", "?y"]], ["q", "?y", "?x"]]),
        (P2, ["and", ["not", ["=", "?x", "?y"]], [">=", ["h", "?x", "?y"], ["f", "?y"]]],
         ["and", ["increase", ["f", "?x"], ["h", "?y", "?x"]], ["p", "?x"]]),
        (P2, ["and", ["or", ["=", "?x", "?y"], ["q", "?y", "?x"]], ["p", "k"]], ["and", ["assign", ["h", "?x", "k"], ["f", "?y"]]]),
        (P2, ["and", ["p", "?x"]], ["and", ["when", ["q", "?x", "?y"], ["and", ["not", ["q", "?x", "?y"]], ["increase", ["f", "?y"], "1"]]]]),
        (P2, ["and"], ["and", ["when", ["and", ["p", "?y"], [">", ["f", "?x"], ["f", "?y"]]], ["p", "?x"]], ["not", ["p", "?y"]]]),
        (P2, ["and", ["forall", ["?z", "-", "t1"], ["or", ["not", ["q", "?z", "?x"]], ["p", "?y"]]]], ["and", ["r"]]),
        (P2, ["and", ["p", "?y"]], ["and", ["forall", ["?z", "-", "t1"], ["when", ["q", "?x", "?z"], ["and", ["q", "?z", "?y"], ["not", ["q", "?x", "?z"]]]]]]),
        (P3, ["and", ["q", "?x", "?y"], ["<", ["f", "?x"], ["g"]]], ["and", ["decrease", ["g"], ["f", "?y"]], ["not", ["q", "?x", "?y"]]]),
        (P1, ["and", ["p", "?x"], ["q", "?x", "k"]], ["and", ["not", ["p", "?x"]], ["increase", ["f", "?x"], "2"]]),
        # symmetric junctions: two members of one container that a swap / chain maps onto each other (every container kind)
        (P2, ["and", ["p", "?x"], ["p", "?y"]], ["and", ["q", "?x", "?y"]]),
        (P2, ["and", ["or", ["p", "?x"], ["p", "?y"]], ["not", ["q", "?x", "?y"]], ["not", ["q", "?y", "?x"]]],
         ["and", ["p", "?x"], ["not", ["p", "?y"]], ["q", "?y", "?x"], ["not", ["q", "?x", "?y"]]]),
        (P2, ["and", [">=", ["f", "?x"], "1"], [">=", ["f", "?y"], "1"]],
         ["and", ["when", ["and", ["p", "?x"], ["p", "?y"]], ["and", ["q", "?x", "?y"]]], ["increase", ["f", "?x"], ["f", "?y"]],
          ["decrease", ["f", "?y"], ["f", "?x"]]]),
        (P2, ["and", ["r"]], ["and", ["p", "?x"], ["p", "?y"], ["when", ["r"], ["and", ["not", ["q", "?x", "?y"]], ["not", ["q", "?y", "?x"]]]],
                               ["increase", ["f", "?x"], "1"], ["increase", ["f", "?y"], "2"]]),
        # three parameters of one type: pairwise (in)equalities, literals and fluents that a rotation maps onto each other
        ("P5", ["and", ["p", "?x"], ["not", ["=", "?x", "?y"]], ["not", ["=", "?y", "?w"]], ["not", ["=", "?x", "?w"]]],
         ["and", ["not", ["p", "?x"]], ["p", "?y"], ["increase", ["f", "?w"], ["f", "?x"]]]),
        ("P5", ["and", ["or", ["=", "?x", "?y"], ["=", "?y", "?w"], ["q", "?x", "?w"]], [">=", ["+", ["f", "?x"], ["*", ["f", "?y"], "2"]], ["f", "?w"]]],
         ["and", ["q", "?x", "?y"], ["q", "?y", "?w"], ["not", ["q", "?w", "?x"]]]),
        (P2, ["and", ["forall", ["?z", "-", "t1"], ["or", ["q", "?z", "?x"], ["q", "?z", "?y"]]]],
         ["and", ["forall", ["?z", "-", "t1"], ["when", ["and", ["q", "?x", "?z"], ["q", "?y", "?z"]], ["and", ["not", ["q", "?x", "?z"]]]]]]),
        # object (in)equalities inside the conditions of conditional and quantified effects
        (P2, ["and", ["p", "?x"]], ["and", ["when", ["and", ["=", "?x", "?y"], ["p", "?y"]], ["q", "?y", "?x"]],
                                   ["forall", ["?z", "-", "t1"], ["when", ["not", ["=", "?z", "?x"]], ["not", ["q", "?z", "?y"]]]]]),
        # a quantified effect / precondition whose variable has the name of a parameter: a renaming that maps the other parameter
        # onto that name must not let the quantifier capture it
        (P2, ["and", ["q", "?x", "?y"]], ["and", ["forall", ["?x", "-", "t1"], ["when", ["p", "?y"], ["not", ["p", "?x"]]]]]),
        (P2, ["and", ["forall", ["?y", "-", "t1"], ["or", ["q", "?x", "?y"], ["p", "?y"]]]], ["and", ["p", "?y"]]),
    ]
    for pl, pre, eff in fixed:
        out.append((pl, True, pre, eff))
    n = 12 if tier == "quick" else 120
    pres = G.sampled_programs(seed * 23 + 1, n, "pre")
    effs = G.sampled_programs(seed * 23 + 2, n, "eff")
    for (pl, c1, pre), (pl2, c2, eff) in zip(pres, effs):
        if pl in ("P0",):
            continue
        if pl2 != pl:
            eff = ["and"]
            c2 = False
        out.append((pl, c1 or c2, pre, eff))
    return out


def validate_renaming(task):
    """(1) + (2) for one program and one renaming"""
    res = {"label": task["label"], "outcome": "held", "detail": "", "queries": 0, "solver_s": 0.0, "calls": 0}
    try:
        text, m = task["domain_text"], task["renaming"]
        rd = rpddl.read_domain(text)
        dom = lib.parse_domain(text)
        act = dom.actions["act"]
        before = [(k, v.name) for k, v in act.signature.items()]
        try:
            act.change_signature(dict(m))
        except Exception as e:  # noqa
            res["outcome"] = "violation"
            res["detail"] = f"change_signature raised {type(e).__name__}: {e}"
            return res
        after = [(k, v.name) for k, v in act.signature.items()]
        want = [(m[k], t) for k, t in before]
        if after != want:
            res["outcome"] = "violation"
            res["detail"] = f"signature {before} renamed by {m} became {after}, expected {want}"
            return res
        objects = dict(G.OBJECTS)
        eps = lib.lib_eps()
        vars_ = rsem.Vars()
        sem = rsem.Sem(rd, objects, eps, vars_)
        dn = denote.Denote(dom, objects, eps, vars_)
        ra = rd.actions["act"]
        for args in G.arg_tuples(ra.params, bool(rd.constants), limit=task.get("args_limit", 4)):
            res["calls"] += 1
            cs_ref = sem.call(ra, args)
            try:
                cs_lib = dn.call(act, args)
            except denote.DenoteError as e:
                res["outcome"] = "violation"
                res["detail"] = f"the renamed action cannot be denoted: {e} (args {args})"
                return res
            t0 = time.time()
            d = denote.equivalent(cs_lib, cs_ref, vars_, assume=z3.And(cs_ref.consistent, cs_ref.defined))
            res["queries"] += 1
            res["solver_s"] += time.time() - t0
            if d is None:
                continue
            if d[0] == "unknown":
                res["outcome"], res["detail"] = "inconclusive", "equivalence query unknown"
                return res
            from .c01 import _witness
            res["outcome"] = "violation"
            res["detail"] = f"args {args}: {d[0]} of the renamed action differs from the original" + _witness(d[1], vars_)
            return res
        return res
    except (rpddl.RefUnsupported, rpddl.RefError) as e:
        res["outcome"], res["detail"] = "oracle_unsupported", str(e)
        return res
    except Exception as e:  # noqa
        res["outcome"], res["detail"] = "error", f"{type(e).__name__}: {e} {traceback.format_exc()[-800:]}"
        return res


def tasks_for(tier, seed):
    val, beh = [], []
    rng = random.Random(seed + 4)
    for pl, const, pre, eff in programs(tier, seed):
        params = G.PARAM_LISTS[pl]
        text = G.domain_text([("act", params, pre, eff)], const=const)
        label = f"pre {sexpr.render(pre)} eff {sexpr.render(eff)}"
        rs = renamings(params, tier)
        for m in rs:
            fm = full_map(m)
            val.append({"kind": "validate", "domain_text": text, "renaming": fm, "label": f"{label} renaming {m}"})
        # three parameters: every picked renaming is also executed (the rotations are the point of these programs)
        for m in (rs if tier == "thorough" or len(params) >= 3 else rng.sample(rs, min(3, len(rs)))):
            fm = full_map(m)
            for mode in ("applicable", "apply"):
                for args in G.arg_tuples(params, const, limit=(2 if tier == "quick" else 3) if len(params) < 3 else 5):
                    beh.append(dict(domain_text=text, action="act", args=args, objects=dict(G.OBJECTS), mode=mode,
                                    label=f"[renamed {m}] {label}", cap=8 if tier == "quick" else 11,
                                    lib_transform="change_signature", renaming=fm, max_paths=1500 if tier == "quick" else 20000))
    return val, beh


def _dispatch(t):
    if t.get("kind") == "validate":
        return validate_renaming(t)
    return callsym.run_task(t)


def twin():
    """the validation must refute a deliberately wrong pairing (renamed action vs a different text)"""
    t1 = G.domain_text([("act", G.PARAM_LISTS["P2"], ["and", ["q", "?x", "?y"]], ["and"])], const=True)
    t2 = G.domain_text([("act", G.PARAM_LISTS["P2"], ["and", ["q", "?y", "?x"]], ["and"])], const=True)
    dom = lib.parse_domain(t1)
    dom.actions["act"].change_signature({"?x": "?a", "?y": "?b"})
    rd = rpddl.read_domain(t2)
    vars_ = rsem.Vars()
    eps = lib.lib_eps()
    c1 = denote.Denote(dom, G.OBJECTS, eps, vars_).call(dom.actions["act"], ["o1", "o2"])
    c2 = rsem.Sem(rd, G.OBJECTS, eps, vars_).call(rd.actions["act"], ["o1", "o2"])
    return denote.equivalent(c1, c2, vars_) is not None


def main(tier):
    rep = runner.Report("C18", tier, "other")
    val, beh = tasks_for(tier, runner.seed())
    tasks = val + beh
    results = runner.pmap(_dispatch, tasks)
    from collections import Counter
    c = Counter()
    queries = calls = paths = 0
    solver_s = 0.0
    samples = []
    nontrivial = set()
    for t, r in zip(tasks, results):
        kind = "validate" if t.get("kind") == "validate" else "behaviour"
        c[f"{kind}:{r['outcome']}"] += 1
        if kind == "validate":
            queries += r["queries"]
            calls += r["calls"]
            solver_s += r["solver_s"]
            nontrivial.add((t["domain_text"], json.dumps(t["renaming"], sort_keys=True)))
            if r["outcome"] == "violation":
                rep.violation(f"{t['label']}: {r['detail']}", {"property": "C18", "kind": "c18", "task": t, "detail": r["detail"]})
            elif r["outcome"] == "inconclusive":
                rep.inconclusive.append(f"{t['label']}: {r['detail']}")
            elif r["outcome"] == "error":
                rep.errors.append(f"{t['label']}: {r['detail']}")
            elif r["outcome"] == "held" and len(samples) < 4 and len(samples) * 30 < len(val):
                samples.append({"program": t["label"], "calls": r["calls"],
                                "obligation": "signature check + unsat( denote(change_signature(A))(args) differs from text(args) )"})
        else:
            paths += r.get("paths", 0)
            if r["outcome"] == "violation":
                cx = r["cex"][0]
                rep.violation(f"{t['label']} args={t['args']}: {cx['what']}",
                              {"property": "C18", "kind": "callsym", "task": t, "atoms_true": cx["atoms_true"], "fluents": cx["fluents"]})
            elif r["outcome"] == "inconclusive":
                rep.inconclusive.append(f"{t['label']}: {r.get('detail')}")
            elif r["outcome"] == "error":
                rep.errors.append(f"{t['label']}: {r.get('detail')}")
    if not twin():
        rep.twins_failed.append("vacuity twin (renamed action against a different text) was not refuted")
    rep.coverage.update({
        "evaluations": len(tasks), "distinct_nontrivial": len(nontrivial),
        "rule": "one evaluation = one (action, renaming) validated for all argument tuples and all states by SMT, or one symbolic "
                "execution of the renamed action; distinct = distinct (domain text, renaming)",
        "samples": samples or [{"note": "none"}], "outcomes": dict(c), "smt_queries": queries, "solver_seconds": round(solver_s, 2),
        "behaviour_paths": paths, "exhaustive": False,
        "bounds": {"renamings": "injective maps of the parameters into {old names} + {?n1, ?n2}: quick = identity, 2 fresh, 2 "
                                "permutations, 2 chains per action; thorough = all (up to 12 for two parameters)",
                   "programs": "9 curated actions (literals, (in)equalities, numeric, conditional, universal conditions/effects) + "
                               "sampled programs", "outside": "renaming of quantified variables and constants (mapped to themselves)"},
    })
    rep.assumptions += ["ref.sem, denote.py", "the map given to change_signature is total on the names that occur (quantified "
                        "variables and constants map to themselves)"]
    return rep.finish(total=len(tasks))


def replay(payload, path):
    r = validate_renaming(payload["task"])
    print(json.dumps({k: r[k] for k in ("outcome", "detail")}, indent=1))
    if r["outcome"] == "violation":
        print(f"VIOLATION property=C18 replay={path}")
        return 1
    print("does not reproduce")
    return 0
