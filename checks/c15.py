"""C15 -- sequential-to-joint plan conversion keeps actions, agent order and outcome.

Bounded symbolic execution of the real PlanConverter._create_joint_actions (which calls
Operator.is_applicable, apply_actions and _validate_well_defined_*) on a problem whose initial atoms
and fluent values are symbolic; the sequential plan (<=4 ground actions over 2-3 agents) and the
concurrency flag are enumerated; the plan is *assumed valid* from the initial state (asserted, with its
satisfiability checked).  Assertions: every non-nop action exactly once; per-agent order preserved;
one slot per agent in the given order, at most one action per agent per step; every grouped action
applicable in the step's pre-state and the group non-interfering (every order applicable, all orders
reach the same state); executing the joint plan reaches the same final state as the sequential plan.
_extract_plan_actions is executed on symbolic plan text.
"""
import itertools
import json
import random
import traceback

import z3

from gen import programs as G
from symx import rex
from symx.core import Ctx, Stats, explore, Inconclusive, Unsupported, PathLimit
from symx.text import SymStr, SymChar
from . import lib, runner, callsym, seqsem

AGENTS3 = ["o1", "o2", "o3"]


def _budget():
    from symx.core import task_budget
    return task_budget()


# round 22: an action whose NAME merely starts with "nop" (only the literal nop is an idle slot): it re-establishes (p ?i)
C15_ACTIONS = seqsem.MA_ACTIONS + [("nopen", [("?a", "t1"), ("?i", "t1")], ["and"], ["and", ["p", "?i"]])]


def _domain_text():
    return seqsem.ma_domain_text(actions=C15_ACTIONS)


def agent_of(call):
    return call[1][0]


def plans(tier, seed):
    rng = random.Random(seed * 73 + 5)
    items = ["o1", "o2", "o3"]
    curated = [
        [("take", ["o1", "o2"]), ("take", ["o2", "o3"])],
        [("take", ["o1", "o3"]), ("burn", ["o2", "o1", "o3"])],  # burn deletes what take needs
        [("drop", ["o1", "o2"]), ("take", ["o2", "o2"]), ("drop", ["o1", "o3"])],
        [("flag", ["o1"]), ("charge", ["o2"]), ("sweep", ["o3"])],
        [("charge", ["o1"]), ("charge", ["o2"])],  # both write (g)
        [("take", ["o1", "o2"]), ("drop", ["o1", "o2"]), ("take", ["o2", "o2"]), ("flag", ["o3"])],
        [("sweep", ["o1"]), ("take", ["o2", "o3"]), ("drop", ["o1", "o2"])],
        [("flag", ["o2"])],
        # three consecutive actions of three agents that can share one step
        [("flag", ["o1"]), ("flag", ["o2"]), ("flag", ["o3"])],
        [("audit", ["o1"]), ("audit", ["o2"]), ("audit", ["o3"]), ("flag", ["o1"])],
        # two agents without a common object that write the same zero-arity fluent, one of them conditionally on its value
        [("charge", ["o3"]), ("burn", ["o1", "o1", "o2"])],
        [("burn", ["o2", "o2", "o1"]), ("charge", ["o1"]), ("flag", ["o3"])],
        # o2's quantified effect deletes (q o2 o1), its take re-establishes it, o1's help needs it: help cannot share take's step
        [("sweep", ["o2"]), ("take", ["o2", "o1"]), ("help", ["o1", "o2"])],
        [("take", ["o2", "o1"]), ("help", ["o1", "o2"]), ("sweep", ["o2"]), ("take", ["o2", "o1"]), ("help", ["o3", "o2"])],
        # an action named nop... adds (p o3), the next agent's burn deletes it: they share o3 and must not share a step
        [("nopen", ["o2", "o3"]), ("burn", ["o1", "o1", "o3"])],
        [("nopen", ["o3", "o1"]), ("burn", ["o2", "o2", "o1"]), ("flag", ["o1"])],
        [("burn", ["o1", "o1", "o3"]), ("nopen", ["o2", "o3"])],
    ]
    out = list(curated)
    n = 120 if tier == "quick" else 1200
    pool = []
    for a in AGENTS3:
        for i in items:
            pool += [("take", [a, i]), ("drop", [a, i])]
            for j in items:
                if i != j:
                    pool.append(("burn", [a, i, j]))
        pool += [("sweep", [a]), ("flag", [a]), ("charge", [a]), ("audit", [a])]
        pool += [("help", [a, b_]) for b_ in AGENTS3 if b_ != a]
        pool += [("nopen", [a, i]) for i in items]
    while len(out) < len(curated) + n:
        k = rng.choice([2, 3, 3, 4] if tier == "quick" else [2, 3, 4, 4])
        out.append([rng.choice(pool) for _ in range(k)])
    return out


_PF = [0]


class ConverterRaised(Exception):
    """the converter raised while it advanced its own state; `steps` = the joint actions it had applied or tried so far"""

    def __init__(self, error, steps):
        super().__init__(str(error))
        self.error, self.steps = error, steps


_REUSED = [False]  # set per task (task["reused_converter"]) by run_convert / the replay


def _convert(conv, problem, plan, agents, flag, via_file):
    import pddl_plus_parser.multi_agent.single_agent_plan_converter as spc
    steps = []
    real = spc.apply_actions

    def recording(domain, state, joint_action, *a, **k):
        steps.append([(ac.name, list(ac.parameters)) for ac in joint_action])
        return real(domain, state, joint_action, *a, **k)

    if _REUSED[0]:
        # the converter object has converted before: the same plan under the other value of the flag (its result is not judged)
        try:
            _convert_inner(conv, problem, plan, agents, not flag, via_file)
        except Exception:  # noqa
            pass
    spc.apply_actions = recording
    try:
        return _convert_inner(conv, problem, plan, agents, flag, via_file)
    except ValueError as e:
        raise ConverterRaised(e, steps)
    finally:
        spc.apply_actions = real


def _convert_inner(conv, problem, plan, agents, flag, via_file):
    """the grouping step alone, or the public entry point convert_plan on a real plan file (the layout of the file written
    by export_plan is not part of the property and is not asserted)"""
    from pddl_plus_parser.models import ActionCall
    if not via_file:
        return conv._create_joint_actions(problem, [(ActionCall(n, list(a)), agent_of((n, a))) for n, a in plan], list(agents), flag)
    import os
    from pathlib import Path
    _PF[0] += 1
    src = Path(lib.tmpdir()) / f"c15_{os.getpid()}_{_PF[0]}.solution"
    src.write_text("".join("(" + " ".join([n] + list(a)) + ")\n" for n, a in plan))
    try:
        return conv.convert_plan(problem, src, list(agents), flag)
    finally:
        try:
            os.unlink(src)
        except OSError:
            pass


def run_convert(task):
    from pddl_plus_parser.models import ActionCall
    from pddl_plus_parser.multi_agent import PlanConverter
    res = {"task": task, "outcome": "held", "paths": 0, "obligations": 0, "cex": None, "reached": 0}
    stats = Stats()
    try:
        lib.install_math_shim()
        text = _domain_text()
        comp = seqsem.Composer(text, G.OBJECTS)
        plan = [(n, list(a)) for n, a in task["plan"]]
        agents = task["agents"]
        flag = task["flag"]
        atoms, fluents = comp.touched(plan)
        if len(atoms) > task.get("cap", 9):
            res["outcome"] = "out_of_bound"
            return res
        fl_all = fluents or ["(g)"]
        seq = comp.sequence(plan)
        assumption = z3.And(seq[0], seq[1], seq[2])

        def fn(ctx: Ctx):
            if not ctx.assume(assumption):
                return None
            world = lib.World(text, G.OBJECTS)
            state, keys = seqsem.symbolic_state(world, comp, atoms, fl_all, is_init=True)
            world.problem.initial_state_predicates = state.state_predicates
            world.problem.initial_state_fluents = state.state_fluents
            conv = PlanConverter(world.domain)
            _REUSED[0] = bool(task.get("reused_converter"))
            joint = _convert(conv, world.problem, plan, agents, flag, task.get("via_file"))
            return [[(ac.name, list(ac.parameters)) for ac in j.actions] for j in joint]

        def on_path(ctx: Ctx, pr):
            if pr.kind == "exc":
                if isinstance(pr.value, ConverterRaised) and _after_interfering_step(ctx, comp, pr.value.steps):
                    # the converter's own state went astray because an EARLIER step grouped members that are applicable,
                    # write no fluent twice, and interfere: the crash is a consequence of known finding C15-F1
                    res.setdefault("interference", []).append(f"converter raised after the interfering step {pr.value.steps[:-1]}")
                    return
                _report(ctx, res, comp, atoms, fl_all, f"raised {type(pr.value).__name__}: {pr.value}", None)
                return
            if pr.value is None:
                return
            res["reached"] += 1
            joint = pr.value
            problems = []
            flat = [(n, a) for step in joint for (n, a) in step if n != "nop"]
            if sorted(map(str, flat)) != sorted(map(str, plan)):
                problems.append(f"actions not conserved: joint plan has {flat}")
            for ag in agents:
                if [c for c in flat if agent_of(c) == ag] != [c for c in plan if agent_of(c) == ag]:
                    problems.append(f"order of agent {ag}'s actions changed")
            for si, step in enumerate(joint):
                if len(step) != len(agents):
                    problems.append(f"step {si} has {len(step)} slots for {len(agents)} agents")
                    continue
                for slot, (n, a) in enumerate(step):
                    if n != "nop" and agent_of((n, a)) != agents[slot]:
                        problems.append(f"step {si}: slot {slot} (agent {agents[slot]}) holds {n} {a}")
            if problems:
                _report(ctx, res, comp, atoms, fl_all, "; ".join(problems[:3]), joint)
                return
            # semantic obligations, step by step.  The joint plan has a meaning only as long as every step so far is
            # non-interfering (all orders applicable, all orders the same state): at the first step whose members are all
            # applicable, write no fluent twice, and CAN interfere, known finding C15-F1 applies and nothing after that
            # step is judged (its pre-state would depend on an application order the property does not define).
            sa, sf = comp.identity()
            for si, step in enumerate(joint):
                calls = [(n, a) for (n, a) in step if n != "nop"]
                must = []
                for n, a in calls:
                    cs = comp.call(n, a)
                    must.append((f"step {si}: {n} {a} applicable in the step's pre-state", comp._subst(cs.pre, sa, sf)))
                # (two members that write the same fluent are judged by the semantic non-interference obligation below:
                # PDDL 2.1 lets additive updates of one fluent commute; what must not happen is an order-dependent result
                # or a member that another member disables -- and a counterexample has to reproduce on those terms)
                if flag and len(calls) > 1:
                    for (n1, a1), (n2, a2) in itertools.combinations(calls, 2):
                        if set(a1) & set(a2):
                            must.append((f"step {si}: {n1} {a1} and {n2} {a2} share an object although the concurrency "
                                         f"constraint is on", z3.BoolVal(False)))
                res["obligations"] += len(must) + 1
                post = z3.And([z3.BoolVal(True)] + [o for _, o in must])
                r = ctx.check(z3.Not(post), expect_unsat=True)
                if r == "unknown":
                    raise Inconclusive("obligation")
                if r == "sat":
                    bad = [d for d, o in must if ctx.check(z3.Not(o)) == "sat"]
                    _report(ctx, res, comp, atoms, fl_all, "; ".join(bad[:2]), joint, z3.Not(post))
                    return
                if len(calls) > 1:
                    ni = comp._subst(comp.non_interfering(calls), sa, sf)
                    r = ctx.check(z3.Not(ni), expect_unsat=True)
                    if r == "unknown":
                        raise Inconclusive("obligation")
                    double_write = any(comp.call(n1, a1).written_fluents & comp.call(n2, a2).written_fluents
                                       for (n1, a1), (n2, a2) in itertools.combinations(calls, 2))
                    if r == "sat" and double_write:
                        # the one interference test of the converter that works (no fluent written twice in a step) did not
                        # stop this group: not the known finding
                        _report(ctx, res, comp, atoms, fl_all, f"step {si} {calls}: members write the same fluent and interfere "
                                                               f"(some order inapplicable or another result)", joint, z3.Not(ni))
                        return
                    if r == "sat":
                        # members applicable and without numeric write-write conflict, yet interfering: exactly what known
                        # finding C15-F1 describes (the discrete / numeric-read interference tests of the converter are dead)
                        res.setdefault("interference", []).append(
                            f"step {si} {calls}: members non-interfering (every order applicable, same result)")
                        if len(res["interference"]) == 1:
                            m = ctx.solver.model() if ctx.check(z3.Not(ni)) == "sat" else None
                            if m is not None:
                                a_, f_ = seqsem.model_state(m, comp, atoms, fl_all)
                                rp = concrete_convert(res["task"], a_, f_)
                                res["interference_witness"] = {"atoms": [a for a, v in a_.items() if v], "fluents": f_,
                                                               "joint": joint, "reproduces": bool(rp.get("disagree"))}
                        return
                for n, a in calls:
                    _, _, _, sa, sf = comp.step(sa, sf, n, a)
            final = ("final state of the joint plan equals the final state of the sequential plan",
                     comp.same_state(sa, sf, seq[3], seq[4]))
            res["obligations"] += 1
            r = ctx.check(z3.Not(final[1]), expect_unsat=True)
            if r == "unknown":
                raise Inconclusive("obligation")
            if r == "sat":
                _report(ctx, res, comp, atoms, fl_all, final[0], joint, z3.Not(final[1]))

        explore(fn, on_path, stats=stats, max_paths=task.get("max_paths", 3000), timeout_ms=5000, time_budget_s=_budget())
        if res["reached"] == 0 and res["outcome"] == "held":
            res["outcome"] = "vacuous"
    except Inconclusive as e:
        res["outcome"], res["detail"] = "inconclusive", str(e)
    except PathLimit as e:
        if res["outcome"] != "violation":
            res["outcome"], res["detail"] = "out_of_bound", str(e)
    except Unsupported as e:
        res["outcome"], res["detail"] = "inconclusive", f"unsupported: {e}"
    except Exception as e:  # noqa
        res["outcome"], res["detail"] = "error", f"{type(e).__name__}: {e} {traceback.format_exc()[-900:]}"
    res["paths"] = stats.paths
    res["stats"] = stats.as_dict()
    return res


def _after_interfering_step(ctx, comp, steps):
    """is there a step before the failing one whose members are all applicable in that step's pre-state (on this path),
    write no fluent twice, and can interfere?  The pre-states follow the converter's own application order."""
    sa, sf = comp.identity()
    for calls in steps[:-1]:
        if len(calls) > 1:
            app = z3.And([comp._subst(comp.call(n, a).pre, sa, sf) for n, a in calls])
            no_ww = all(not (comp.call(n1, a1).written_fluents & comp.call(n2, a2).written_fluents)
                        for (n1, a1), (n2, a2) in itertools.combinations(calls, 2))
            ni = comp._subst(comp.non_interfering(calls), sa, sf)
            if no_ww and ctx.check(z3.Not(app)) == "unsat" and ctx.check(z3.Not(ni)) == "sat":
                return True
        for n, a in calls:
            _, _, _, sa, sf = comp.step(sa, sf, n, a)
    return False


def concrete_convert(task, atoms, fls):
    """the real converter on a concrete initial state + exact evaluation of the obligations"""
    from pddl_plus_parser.models import ActionCall
    from pddl_plus_parser.multi_agent import PlanConverter
    text = _domain_text()
    comp = seqsem.Composer(text, G.OBJECTS)
    plan = [(n, list(a)) for n, a in task["plan"]]
    world = lib.World(text, G.OBJECTS)
    state, keys = world.make_state(dict(atoms), dict(fls), is_init=True)
    world.problem.initial_state_predicates = state.state_predicates
    world.problem.initial_state_fluents = state.state_fluents
    seq = comp.sequence(plan)
    _, _, ev = seqsem.eval_state_exact(comp, seq[3], seq[4], list(atoms), list(fls), atoms, fls)
    out = {"sequential_plan_valid": bool(ev(z3.And(seq[0], seq[1], seq[2])))}
    try:
        _REUSED[0] = bool(task.get("reused_converter"))
        joint = _convert(PlanConverter(world.domain), world.problem, plan, task["agents"], task["flag"], task.get("via_file"))
    except Exception as e:  # noqa
        out["observed"] = f"{type(e).__name__}: {e}"
        out["disagree"] = out["sequential_plan_valid"]
        return out
    jl = [[(ac.name, list(ac.parameters)) for ac in j.actions] for j in joint]
    out["joint_plan"] = [[f"({n} {' '.join(a)})" for n, a in st] for st in jl]
    bad = []
    sa, sf = comp.identity()
    for si, step in enumerate(jl):
        calls = [(n, a) for (n, a) in step if n != "nop"]
        if calls and not ev(comp._subst(comp.non_interfering(calls), sa, sf)):
            bad.append(f"step {si}: {calls} are not all applicable/non-interfering in the step's pre-state")
        for n, a in calls:
            _, _, _, sa, sf = comp.step(sa, sf, n, a)
    if not ev(comp.same_state(sa, sf, seq[3], seq[4])):
        bad.append("final states differ")
    out["bad"] = bad
    out["disagree"] = out["sequential_plan_valid"] and bool(bad)
    return out


def _report(ctx, res, comp, atoms, fl_all, desc, joint, neg=None):
    if res["outcome"] == "violation":
        return
    model = callsym.nice_model(ctx, neg if neg is not None else z3.BoolVal(True), [comp.vars.fluent(f) for f in fl_all])
    if model is None:
        return
    a_, f_ = seqsem.model_state(model, comp, atoms, fl_all)
    rp = concrete_convert(res["task"], a_, f_)
    if rp.get("disagree") or neg is None:
        res["outcome"] = "violation"
        res["cex"] = {"what": desc, "atoms": a_, "fluents": f_, "joint": joint, "replay": callsym._jsonable(rp)}
    else:
        res["unconfirmed"] = res.get("unconfirmed", 0) + 1


_REX = rex.module()


def run_extract(task):
    """_extract_plan_actions on plan text with symbolic names/arguments; agent = first agent name among the arguments"""
    import pddl_plus_parser.multi_agent.single_agent_plan_converter as spc
    from .c19 import name_char
    res = {"task": task, "outcome": "held", "paths": 0, "obligations": 0, "cex": None, "reached": 0}
    stats = Stats()
    shape = task["shape"]  # per line: list of word lengths for the non-agent words; the agent argument is concrete

    def fn(ctx: Ctx):
        cons, expect = [], []
        textv = SymStr([])
        for li, entry in enumerate(shape):
            lens, agent = entry[0], entry[1]
            tail = list(entry[2]) if len(entry) > 2 else []  # concrete words after the symbolic ones (e.g. a second agent's name)
            ws = []
            for wi, ln in enumerate(lens):
                vs = [z3.Int(f"l{li}w{wi}c{k}") for k in range(ln)]
                cons += [name_char(v) for v in vs]
                ws.append(SymStr([SymChar(v) for v in vs]))
            words = [ws[0], SymStr.of(agent)] + ws[1:] + [SymStr.of(t) for t in tail]
            line = SymStr.of(task.get("prefix", "")) + "(" + words[0]
            for w in words[1:]:
                line = line + " " + w
            textv = textv + line + ")" + task.get("suffix", "") + task.get("sep", "\n")
            expect.append(([w.lower() for w in words], agent))
            # the symbolic words must not themselves be agent names (else the executing agent is ambiguous)
            for w in ws[1:]:
                for ag in task["agents"]:
                    if len(ag) == len(w):
                        cons.append(z3.Not(w.lower().eqz(ag)))
        if not ctx.assume(z3.And(cons) if cons else z3.BoolVal(True)):
            return None
        rex.install(spc, _REX)
        conv = spc.PlanConverter.__new__(spc.PlanConverter)
        import logging
        conv.logger = logging.getLogger("verif")
        return expect, conv._extract_plan_actions(textv, list(task["agents"])), textv

    def on_path(ctx: Ctx, pr):
        if pr.kind == "exc":
            res["outcome"] = "violation"
            res["cex"] = {"what": f"_extract_plan_actions raised {type(pr.value).__name__}: {pr.value}"}
            return
        if pr.value is None:
            return
        res["reached"] += 1
        expect, got, textv = pr.value
        res["obligations"] += 1
        parts = [z3.BoolVal(len(got) == len(expect))]
        if len(got) == len(expect):
            for (words, agent), (ac, ag) in zip(expect, got):
                gw = [ac.name] + list(ac.parameters)
                parts.append(z3.BoolVal(len(gw) == len(words)))
                ags = ag if isinstance(ag, SymStr) else SymStr.of(ag)
                parts.append(ags.eqz(agent))
                if len(gw) == len(words):
                    for g, w in zip(gw, words):
                        gs = g if isinstance(g, SymStr) else SymStr.of(g)
                        parts.append(gs.eqz(w))
        m = ctx.valid(z3.And(parts))
        if m is not None and res["outcome"] != "violation":
            plan_text = textv.concrete(m)
            rp = concrete_extract(plan_text, task["agents"])
            if rp["disagree"]:
                res["outcome"] = "violation"
                res["cex"] = {"what": f"extracted actions/agents differ from the plan lines: {rp}", "plan_text": plan_text}
            else:
                res["unconfirmed"] = res.get("unconfirmed", 0) + 1

    try:
        explore(fn, on_path, stats=stats, max_paths=50000, timeout_ms=5000)
    except (Inconclusive, Unsupported, PathLimit) as e:
        res["outcome"], res["detail"] = "inconclusive", f"{type(e).__name__}: {e}"
    except Exception as e:  # noqa
        res["outcome"], res["detail"] = "error", f"{type(e).__name__}: {e} {traceback.format_exc()[-600:]}"
    res["paths"] = stats.paths
    res["stats"] = stats.as_dict()
    return res


def concrete_extract(plan_text, agents):
    """the real _extract_plan_actions (real re) on a concrete plan text; reference: tokens of each line, lower-cased,
    executing agent = first agent name among the arguments"""
    import logging
    import re as real_re
    import pddl_plus_parser.multi_agent.single_agent_plan_converter as spc
    rex.uninstall(spc)
    conv = spc.PlanConverter.__new__(spc.PlanConverter)
    conv.logger = logging.getLogger("verif")
    want = []
    # every parenthesised call of the text, in order (planners write an index or a time stamp before a call, a duration after it,
    # indent lines, and some put several calls on one line)
    for call in real_re.findall(r"\(([^()]*)\)", plan_text):
        body = call.lower().split()
        want.append([body[0], body[1:], next(w for w in body[1:] if w in agents)])
    try:
        got = [[ac.name, list(ac.parameters), ag] for ac, ag in conv._extract_plan_actions(plan_text, list(agents))]
    except Exception as e:  # noqa
        return {"plan_text": plan_text, "observed": f"{type(e).__name__}: {e}", "expected": want, "disagree": True}
    return {"plan_text": plan_text, "observed": got, "expected": want, "disagree": got != want}


def tasks_for(tier, seed):
    tasks = []
    n_curated = len(plans(tier, seed)) - (120 if tier == "quick" else 1200)
    for pi, p in enumerate(plans(tier, seed)):
        ags = sorted({agent_of(c) for c in p})
        agent_sets = [AGENTS3] if tier == "quick" else [AGENTS3, ags if len(ags) >= 2 else AGENTS3[:2]]
        for agents in agent_sets:
            if not set(ags) <= set(agents):
                continue
            for flag in (True, False):
                # the agent list in the caller's order, which is not always the alphabetical one: slot i belongs to agents[i].
                # Curated plans are converted under EVERY rotation of the list (their detection power must not depend on the
                # position they happen to have in the task list); sampled plans under one rotation each.
                rotations = range(3) if pi < n_curated else [len(tasks) % 3]
                for k in rotations:
                    ag = list(agents[k:]) + list(agents[:k]) if len(agents) == 3 else (list(reversed(agents)) if k else list(agents))
                    tasks.append({"kind": "convert", "plan": p, "agents": ag, "flag": flag, "cap": 9 if tier == "quick" else 12,
                                  "max_paths": 3000 if tier == "quick" else 30000,
                                  "via_file": (pi + k) % 2 == 1 if pi < n_curated else len(tasks) % 3 == 0,
                                  "reused_converter": len(tasks) % 4 == 1})
    for shape in ([([1, 1], "a1")], [([2], "a2"), ([1, 1], "a1")], [([1, 1, 1], "a1")]):
        for prefix in ("", "0: ", "12: "):
            tasks.append({"kind": "extract", "shape": shape, "agents": ["a1", "a2"], "prefix": prefix})
        # what planners write around a call: a decimal time stamp and a duration, indentation, a label, several calls per line
        for prefix, suffix, sep in (("0.001: ", " [1.000]", "\n"), ("   ", "", "\n"), ("step 3: ", "", "\n"), ("\t7 : ", "", "\n"), ("", "", " "),
                                    ("", " ", "")):
            tasks.append({"kind": "extract", "shape": shape, "agents": ["a1", "a2"], "prefix": prefix, "suffix": suffix, "sep": sep})
    # an action that also names other agents after the executing one (hand-over): the executing agent is the first agent
    # name among the arguments, whatever the order of the agent list
    for shape in ([([1, 1], "a2", ["a1"])], [([1], "a3", ["a1", "a2"]), ([1, 1], "a1", ["a3"])], [([1], "a2", ["a2"])]):
        for agents in (["a1", "a2", "a3"], ["a3", "a2", "a1"]):
            tasks.append({"kind": "extract", "shape": shape, "agents": agents, "prefix": ""})
    return tasks


def _dispatch(t):
    return run_convert(t) if t["kind"] == "convert" else run_extract(t)


def twin():
    """the non-interference predicate must reject the textbook interfering pair (one deletes what the other needs)"""
    comp = seqsem.Composer(_domain_text(), G.OBJECTS)
    calls = [("take", ["o1", "o3"]), ("burn", ["o2", "o1", "o3"])]
    s = z3.Solver()
    s.add(comp.call(*calls[0]).pre, comp.call(*calls[1]).pre)
    s.add(comp.non_interfering(calls))
    return s.check() == z3.unsat


def main(tier):
    rep = runner.Report("C15", tier, "other")
    tasks = tasks_for(tier, runner.seed())
    results = runner.pmap(_dispatch, tasks)
    from collections import Counter
    c, agg = Counter(), Counter()
    paths = obligations = nontrivial = unconfirmed = 0
    solver_s = 0.0
    samples = []
    known = runner.load_known("C15")
    finding_samples = {}
    for t, r in zip(tasks, results):
        c[f"{t['kind']}:{r['outcome']}"] += 1
        paths += r["paths"]
        obligations += r["obligations"]
        unconfirmed += r.get("unconfirmed", 0)
        st = r.get("stats") or {}
        for k in runner.STAT_KEYS:
            agg[k] += st.get(k, 0)
        solver_s += st.get("solver_seconds", 0.0)
        if r["paths"] >= 2:
            nontrivial += 1
        label = json.dumps({k: v for k, v in t.items() if k in ("kind", "plan", "agents", "flag", "shape", "prefix")})
        if r.get("interference"):
            f1 = next((k for k in known if k["id"] == "C15-F1"), None)
            if f1 is not None:
                rep.known(f1, len(r["interference"]))
                if "witness" not in finding_samples and r.get("interference_witness"):
                    finding_samples["witness"] = {"task": json.loads(label), **r["interference_witness"]}
            else:
                rep.violation(f"{label}: grouped actions interfere: {r['interference'][0]}",
                              {"property": "C15", "kind": "c15", "task": t, "cex": {"what": r["interference"][0],
                                                                                    **(r.get("interference_witness") or {})}})
        if r["outcome"] == "violation":
            cx = r["cex"]
            rep.violation(f"{label}: {cx['what']}" + (f" -> joint plan {cx.get('joint')} from the initial state "
                                                     f"{[a for a, v in cx['atoms'].items() if v]} { {k: v for k, v in cx['fluents'].items() if v} }"
                                                     if cx.get("atoms") is not None else ""),
                          {"property": "C15", "kind": "c15", "task": t, "cex": cx})
        elif r["outcome"] == "inconclusive":
            rep.inconclusive.append(f"{label}: {r.get('detail')}")
        elif r["outcome"] == "error":
            rep.errors.append(f"{label}: {r.get('detail')}")
        elif r["outcome"] == "held" and len(samples) < 4 and r["paths"] >= 3:
            samples.append({"task": json.loads(label), "paths": r["paths"], "obligations": r["obligations"]})
    if not twin():
        rep.twins_failed.append("vacuity twin failed")
    q = dict(agg)
    q["solver_seconds"] = round(solver_s, 2)
    rep.coverage.update({
        "evaluations": len(tasks), "distinct_nontrivial": nontrivial,
        "rule": "one evaluation = one (sequential plan, agent list, concurrency flag) explored over all feasible paths from a symbolic "
                "initial state assumed to make the plan valid; non-trivial = >=2 feasible paths",
        "samples": samples or [{"note": "none"}], "outcomes": dict(c), "paths": paths, "obligations": obligations, "queries": q,
        "unconfirmed_counterexamples": unconfirmed, "exhaustive": False, "known_finding_witness": finding_samples.get("witness"),
        "bounds": {"plans": "8 curated + sampled plans of 2-4 ground actions over 3 agents on a 6-action numeric/conditional/universal "
                            "domain, both values of the concurrency flag", "symbolic_atoms_cap": 9 if tier == "quick" else 12,
                   "outside": "plans longer than 4; 4 agents; plans shipped with the repository"},
        "functions_executed_symbolically": ["PlanConverter._create_joint_actions/_validate_well_defined_joint_action/"
                                            "_validate_well_defined_action_insertion/_extract_grounded_effects/"
                                            "_extract_grounded_preconditions/_extract_plan_actions", "apply_actions", "Operator.is_applicable/apply"],
    })
    rep.assumptions += ["the sequential plan is valid from the initial state under ref.sem (asserted; unsatisfiable -> vacuous)",
                        "non-interference = every order applicable and all orders reach the same state"]
    return rep.finish(total=len(tasks))


def replay(payload, path):
    t, cx = payload["task"], payload["cex"]
    if t["kind"] == "convert" and cx.get("atoms") is not None:
        rp = concrete_convert(t, cx["atoms"], cx["fluents"])
        print(json.dumps(callsym._jsonable(rp), indent=1))
        bad = rp["disagree"]
    elif t["kind"] == "extract" and cx.get("plan_text") is not None:
        rp = concrete_extract(cx["plan_text"], t["agents"])
        print(json.dumps(rp, indent=1))
        bad = rp["disagree"]
    else:
        r = _dispatch(t)
        print(r["outcome"], r.get("cex"))
        bad = r["outcome"] == "violation"
    if bad:
        print(f"VIOLATION property=C15 replay={path}")
        return 1
    print("does not reproduce")
    return 0
