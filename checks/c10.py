"""C10 -- a serialized trajectory parses back to the same states and actions.

Bounded symbolic execution of the real export -> file -> TrajectoryParser.parse_trajectory pipeline:
TrajectoryExporter.parse_plan/export_to_file (single agent) and MultiAgentTrajectoryExporter.parse_plan/
export_to_file (joint actions with nop entries) produce the text from a problem whose initial atoms and fluent
values are symbolic (numbers travel through the text as placeholder tokens, so every later state's values are z3
terms over the initial ones); the text is written to a real scratch file and read back by the real tokenizer and
TrajectoryParser -- with the problem's object table and with objects deduced from the first state.  The plan
(<=3 calls / <=2 joint actions) is enumerated.  The reference is the exporter's own triplets (what was
serialized), not an oracle of the transition function (that is C04/C16).

Per path: one component per action; the same action calls (names, arguments, nop entries, slot order); every
pre/post state has the same facts and the same fluents (same argument lists) and -- decided by z3 under the path
condition -- the same values; the observation is a chain.
"""
import itertools
import json
import os
import random
import traceback
from pathlib import Path

import z3

from gen import programs as G
from symx import core
from symx.core import Ctx, Stats, explore, Inconclusive, Unsupported, PathLimit, SymReal
from . import lib, runner, callsym, seqsem, c04, c16

AGENTS = ["o1", "o2", "o3"]
# fluents the plan never touches, of the shapes the property names: zero-arity, two arguments, repeated argument
# an argument three times; a constant; a constant BEFORE an object and between objects (argument order must survive)
EXOTIC_FLUENTS = ["(g)", "(h o2 o1)", "(h o1 o1)", "(w3 o1 o1 o1)", "(f k)", "(h k o1)", "(w3 o2 k o1)"]
EXOTIC_ATOMS = ["(r)", "(q o2 o2)"]
_N = [0]



AWKWARD = (0.123456789, 1234.56789012, -0.000123456789)  # added to a counterexample's values when it does not reproduce as is:
# a disagreement that needs many significant digits (number printing) is real all the same, and is reported with the
# values that reproduce it

def _budget():
    return core.task_budget()


def _domain_text(kind):
    if kind == "single":
        return seqsem.ma_domain_text(const=True, actions=seqsem.MA_ACTIONS + seqsem.NULLARY_ACTIONS + seqsem.MOVE_ACTIONS)
    return seqsem.ma_domain_text(const=True)


def _scratch():
    _N[0] += 1
    return Path(lib.tmpdir()) / f"c10_{os.getpid()}_{_N[0]}.trajectory"


def _toks(x):
    return str(x).replace("(", " ( ").replace(")", " ) ").replace(",", " ").replace("[", " ").replace("]", " ").split()


def facts(state):
    return lib.state_atoms(state)


def fluent_map(state):
    """printed fluent (name + argument list) -> value object"""
    return {lib.fluent_name(f): f.value for f in state.state_fluents.values()}


def _val(v):
    return v.e if isinstance(v, SymReal) else core.exact(v)


def compare_states(label, got, want, problems, obligations):
    a, b = facts(got), facts(want)
    if a != b:
        problems.append(f"{label}: facts differ: only in the parsed state {sorted(a - b)}, only in the serialized state {sorted(b - a)}")
    fa, fb = fluent_map(got), fluent_map(want)
    if len(fa) != len(got.state_fluents) or len(fb) != len(want.state_fluents):
        problems.append(f"{label}: two fluents print alike")
    if set(fa) != set(fb):
        problems.append(f"{label}: fluents differ: only in the parsed state {sorted(set(fa) - set(fb))}, only in the serialized state "
                        f"{sorted(set(fb) - set(fa))}")
        return
    for k in fa:
        obligations.append((f"{label}: value of {k}", _val(fa[k]) == _val(fb[k])))


def pipeline(task, world, state, symbolic):
    """the real pipeline from a prepared problem; returns (triplets, observation)"""
    from pddl_plus_parser.lisp_parsers import TrajectoryParser
    import pddl_plus_parser.lisp_parsers.trajectory_parser as tp
    world.problem.initial_state_predicates = state.state_predicates
    world.problem.initial_state_fluents = state.state_fluents
    path = _scratch()
    if task["kind"] == "single":
        from pddl_plus_parser.exporters import TrajectoryExporter
        exporter = TrajectoryExporter(world.domain, allow_invalid_actions=task["allow"])
        trips = exporter.parse_plan(world.problem, action_sequence=[c04.line_of(c) + "\n" for c in task["plan"]])
        agents = None
    else:
        from pddl_plus_parser.multi_agent import MultiAgentTrajectoryExporter
        exporter = MultiAgentTrajectoryExporter(world.domain, allow_invalid_actions=True)
        trips = exporter.parse_plan(world.problem, action_sequence=[c16.joint_line(s) for s in task["plan"]],
                                    allow_inapplicable_actions=True)
        agents = list(AGENTS)
    try:
        exporter.export_to_file(trips, path)
        parser = TrajectoryParser(world.domain, world.problem if task["with_problem"] else None)
        if symbolic:
            tp.float = core.sym_float
        try:
            kw = {"strict_trajectory_validation": True} if task.get("strict") else {}  # the optional strict reading of the file
            if agents is None:
                obs = parser.parse_trajectory(path, **kw)
            else:
                obs = parser.parse_trajectory(path, executing_agents=agents, **kw)
        finally:
            if symbolic:
                del tp.float
    finally:
        try:
            os.unlink(path)
        except OSError:
            pass
    return trips, obs


def structural(task, trips, obs, problems, obligations):
    plan = task["plan"]
    if len(trips) != len(plan):
        problems.append(f"{len(trips)} triplets for {len(plan)} plan lines")
    comps = obs.components
    if len(comps) != len(trips):
        problems.append(f"{len(comps)} components parsed from a trajectory of {len(trips)} steps")
        return
    for i, (cp, trp) in enumerate(zip(comps, trips)):
        if task["kind"] == "single":
            ac = cp.grounded_action_call
            got = [ac.name] + list(ac.parameters)
            want = _toks(trp.operator)[1:-1]
            if got != want:
                problems.append(f"step {i}: action call {got} parsed from the serialized {want}")
        else:
            got = [[ac.name] + list(ac.parameters) for ac in cp.grounded_joint_action.actions]
            want = [["nop"] if s is None else [s[0]] + list(s[1]) for s in plan[i]]
            if got != want:
                problems.append(f"step {i}: joint action {got} parsed from the serialized {want}")
        compare_states(f"step {i} pre-state", cp.previous_state, trp.previous_state, problems, obligations)
        compare_states(f"step {i} post-state", cp.next_state, trp.next_state, problems, obligations)
        if i > 0:
            compare_states(f"step {i} pre-state vs step {i - 1} post-state (chain)", cp.previous_state, comps[i - 1].next_state,
                           problems, obligations)


def _slice(task, comp):
    if task["kind"] == "single":
        calls = [(n, list(a)) for n, a in task["plan"]]
    else:
        calls = [(s[0], list(s[1])) for slots in task["plan"] for s in slots if s is not None]
    atoms, fluents = comp.touched(calls)
    # the round trip does not depend on which facts make the steps applicable: a bounded number of the touched atoms is
    # symbolic (the rest is absent), so that the path count stays within the budget
    keep = task.get("sym_atoms", 5)
    if len(atoms) > keep:
        rng = random.Random(len(atoms) * 31 + len(calls))
        atoms = sorted(rng.sample(atoms, keep))
    atoms = atoms + [a for a in EXOTIC_ATOMS if a not in atoms][: task.get("extra_atoms", 1)]
    fluents = fluents + [f for f in task.get("extra_fluents", EXOTIC_FLUENTS[:1]) if f not in fluents]
    return atoms, fluents


PROBE_VALUES = [1.25e-05, 4e-08, 123456789.125, -0.000123456789, 1e+16, 0.1 + 0.2, -2.5e-07, 1234567.0]


def run_probe(task):
    """numbers whose TEXT is unusual (exponent notation, many digits): outside the symbolic model (values travel as
    placeholder tokens), so these are plain concrete round trips, reported as such"""
    res = {"task": task, "outcome": "held", "paths": 1, "obligations": 1, "cex": None, "reached": 1}
    comp = seqsem.Composer(_domain_text(task["kind"]), G.OBJECTS)
    atoms, fluents = _slice(task, comp)
    a_ = {a: (i % 2 == 0) for i, a in enumerate(atoms)}
    for shift in range(len(PROBE_VALUES)):
        f_ = {f: PROBE_VALUES[(i + shift) % len(PROBE_VALUES)] for i, f in enumerate(fluents)}
        rp = concrete_round_trip(task, a_, f_)
        if rp.get("disagree"):
            res["outcome"] = "violation"
            res["cex"] = {"what": "; ".join(map(str, rp.get("problems") or [rp.get("observed")]))[:400], "atoms": a_, "fluents": f_,
                          "replay": callsym._jsonable(rp)}
            break
    return res


def run_round_trip(task):
    if task.get("probe"):
        return run_probe(task)
    res = {"task": task, "outcome": "held", "paths": 0, "obligations": 0, "cex": None, "reached": 0}
    stats = Stats()
    try:
        lib.install_math_shim()
        text = _domain_text(task["kind"])
        comp = seqsem.Composer(text, G.OBJECTS)
        atoms, fluents = _slice(task, comp)
        if len(atoms) > task.get("cap", 9):
            res["outcome"] = "out_of_bound"
            return res

        def fn(ctx: Ctx):
            # canonical tokens: equal values print alike (decided by the solver), so that a later state can be textually
            # identical to an earlier one; costs a fork per pair of values, hence only for a few small tasks
            ctx.canonical_tags = bool(task.get("canonical"))
            world = lib.World(text, G.OBJECTS)
            state, keys = seqsem.symbolic_state(world, comp, atoms, fluents, is_init=True)
            return pipeline(task, world, state, symbolic=True)

        def on_path(ctx: Ctx, pr):
            if pr.kind == "exc":
                _cex(ctx, res, task, comp, atoms, fluents, f"raised {type(pr.value).__name__}: {pr.value}", z3.BoolVal(True), True)
                return
            res["reached"] += 1
            trips, obs = pr.value
            problems, obligations = [], []
            structural(task, trips, obs, problems, obligations)
            res["obligations"] += len(obligations) + 3 * max(1, len(trips))
            if problems:
                _cex(ctx, res, task, comp, atoms, fluents, "; ".join(problems[:3]), z3.BoolVal(True), True)
                return
            post = z3.And([z3.BoolVal(True)] + [o for _, o in obligations])
            r = ctx.check(z3.Not(post), expect_unsat=True)
            if r == "unknown":
                raise Inconclusive("obligation")
            if r == "sat":
                bad = [d for d, o in obligations if ctx.check(z3.Not(o)) == "sat"]
                _cex(ctx, res, task, comp, atoms, fluents, "values differ after the round trip: " + "; ".join(bad[:3]), z3.Not(post), False)

        explore(fn, on_path, stats=stats, max_paths=task.get("max_paths", 1500), timeout_ms=5000, time_budget_s=_budget())
        if res["reached"] == 0 and res["outcome"] == "held":
            res["outcome"] = "vacuous"
    except Inconclusive as e:
        res["outcome"], res["detail"] = "inconclusive", str(e)
    except PathLimit as e:
        if res["outcome"] != "violation":
            res["outcome"], res["detail"] = "out_of_bound", str(e)
    except Unsupported as e:
        res["outcome"], res["detail"] = "inconclusive", f"unsupported: {e}"
    except Exception as e:  # noqa
        res["outcome"], res["detail"] = "error", f"{type(e).__name__}: {e} {traceback.format_exc()[-900:]}"
    res["paths"] = stats.paths
    res["stats"] = stats.as_dict()
    return res


def concrete_round_trip(task, atoms, fls):
    """the unshimmed pipeline on a concrete initial state with plain floats (real repr / float)"""
    text = _domain_text(task["kind"])
    world = lib.World(text, G.OBJECTS)
    state, _ = world.make_state(dict(atoms), dict(fls), is_init=True)
    out = {"problems": []}
    try:
        trips, obs = pipeline(task, world, state, symbolic=False)
    except Exception as e:  # noqa
        out["observed"] = f"{type(e).__name__}: {e}"
        out["disagree"] = True
        return out
    problems, obligations = [], []
    structural(task, trips, obs, problems, obligations)
    for d, o in obligations:
        if not z3.is_true(z3.simplify(o)):
            problems.append(d + " differs")
    out["problems"] = problems[:6]
    out["disagree"] = bool(problems)
    return out


def _cex(ctx, res, task, comp, atoms, fluents, desc, neg, structural_):
    if res["outcome"] == "violation":
        return
    model = callsym.nice_model(ctx, neg, [comp.vars.fluent(f) for f in fluents])
    if model is None:
        res["unconfirmed"] = res.get("unconfirmed", 0) + 1
        return
    a_, f_ = seqsem.model_state(model, comp, atoms, fluents)
    rp = concrete_round_trip(task, a_, f_)
    if not rp.get("disagree"):
        for delta in AWKWARD:
            shifted = {k_: v_ + delta for k_, v_ in f_.items()}
            rp2 = concrete_round_trip(task, a_, shifted)
            if rp2.get("disagree"):
                rp, f_ = rp2, shifted
                break
    if rp.get("disagree"):
        res["outcome"] = "violation"
        res["cex"] = {"what": desc, "atoms": a_, "fluents": f_, "replay": callsym._jsonable(rp)}
    else:
        res["unconfirmed"] = res.get("unconfirmed", 0) + 1
        res.setdefault("unconfirmed_sample", {"what": desc, "atoms": a_, "fluents": f_})


def tasks_for(tier, seed):
    rng = random.Random(seed * 97 + 7)
    tasks = []
    singles = [p for p in c04.plans(tier, seed) if p]
    singles = singles[: (60 if tier == "quick" else 400)]
    for i, p in enumerate(singles):
        for with_problem in (True, False):
            tasks.append({"kind": "single", "plan": p, "allow": bool((i + with_problem) % 2), "with_problem": with_problem, "strict": i % 3 == 1,
                          "extra_fluents": EXOTIC_FLUENTS[: 1 + i % 7], "extra_atoms": 1 + i % 2,
                          "cap": 8 if tier == "quick" else 10, "max_paths": 800 if tier == "quick" else 6000,
                          "sym_atoms": 6 if tier == "quick" else 8})
    for p, kind in (([("take", ["o1", "o2"]), ("flag", ["o1"])], "single"), ([("charge", ["o2"])], "single")):
        for with_problem in (True, False):
            tasks.append({"kind": kind, "plan": p, "allow": True, "with_problem": with_problem, "extra_fluents": EXOTIC_FLUENTS[:3],
                          "extra_atoms": 1, "probe": True})
    # trajectories that come back to a state they have been in (token-identical text of two states)
    for p in ([("take", ["o1", "o2"]), ("drop", ["o1", "o2"]), ("take", ["o1", "o2"])],
              [("take", ["o1", "o2"]), ("drop", ["o1", "o2"]), ("flag", ["o1"])],
              [("take", ["o1", "o2"]), ("shift", ["o1", "o2", "o2"]), ("shift", ["o1", "o2", "o3"])],
              [("flag", ["o2"]), ("take", ["o1", "o3"]), ("drop", ["o1", "o3"]), ("charge", ["o1"])]):
        for with_problem in (True, False):
            tasks.append({"kind": "single", "plan": p, "allow": True, "with_problem": with_problem, "extra_fluents": EXOTIC_FLUENTS[:1],
                          "extra_atoms": 0, "cap": 8, "max_paths": 1500, "sym_atoms": 3, "canonical": True})
    # two agents making textually identical calls in one step (the serialization does not say who acts: only the slot does)
    twins_ = [[("flag", ["o1"]), ("flag", ["o1"]), None], [None, ("charge", ["o2"]), ("charge", ["o2"])],
              [("sweep", ["o3"]), None, ("sweep", ["o3"])], [("take", ["o1", "o2"]), ("take", ["o1", "o2"]), ("take", ["o1", "o2"])]]
    joints = twins_ + c16.candidate_joint_actions(tier, seed)
    joints = joints[: (40 if tier == "quick" else 300)]
    for i, j in enumerate(joints):
        plan = [j] if i % 2 else [j, rng.choice(joints)]
        tasks.append({"kind": "joint", "plan": plan, "with_problem": bool(i % 3), "strict": i % 4 == 1, "extra_fluents": EXOTIC_FLUENTS[: 1 + i % 7],
                      "extra_atoms": 1 + i % 2, "cap": 8 if tier == "quick" else 10, "max_paths": 800 if tier == "quick" else 6000,
                      "sym_atoms": 6 if tier == "quick" else 8})
    return tasks


def twin():
    """a deliberately damaged serialization (one fluent value altered in the text) must be noticed"""
    task = {"kind": "single", "plan": [("take", ["o1", "o2"])], "allow": True, "with_problem": True}
    text = _domain_text("single")
    world = lib.World(text, G.OBJECTS)
    state, _ = world.make_state({"(p o2)": True}, {"(f o1)": 1.5, "(g)": 2.0}, is_init=True)
    from pddl_plus_parser.exporters import TrajectoryExporter
    from pddl_plus_parser.lisp_parsers import TrajectoryParser
    world.problem.initial_state_predicates = state.state_predicates
    world.problem.initial_state_fluents = state.state_fluents
    exporter = TrajectoryExporter(world.domain, allow_invalid_actions=True)
    trips = exporter.parse_plan(world.problem, action_sequence=["(take o1 o2)\n"])
    path = _scratch()
    path.write_text("".join(exporter.export(trips)).replace("2.5", "2.75"))
    obs = TrajectoryParser(world.domain, world.problem).parse_trajectory(path)
    os.unlink(path)
    problems, obligations = [], []
    structural(task, trips, obs, problems, obligations)
    return any(not z3.is_true(z3.simplify(o)) for _, o in obligations) or bool(problems)


def main(tier):
    rep = runner.Report("C10", tier, "other")
    tasks = tasks_for(tier, runner.seed())
    results = runner.pmap(run_round_trip, tasks)
    from collections import Counter
    c, agg = Counter(), Counter()
    paths = obligations = nontrivial = unconfirmed = 0
    solver_s = 0.0
    samples = []
    known = runner.load_known("C10")
    for t, r in zip(tasks, results):
        c[f"{t['kind']}:{r['outcome']}"] += 1
        paths += r["paths"]
        obligations += r["obligations"]
        unconfirmed += r.get("unconfirmed", 0)
        st = r.get("stats") or {}
        for k in runner.STAT_KEYS:
            agg[k] += st.get(k, 0)
        solver_s += st.get("solver_seconds", 0.0)
        if r["paths"] >= 2:
            nontrivial += 1
        label = json.dumps({k: t[k] for k in ("kind", "plan", "with_problem", "extra_fluents") if k in t})
        if r["outcome"] == "violation":
            cx = r["cex"]
            detail = f"{label}: {cx['what']} from the initial state {[a for a, v in cx['atoms'].items() if v]} {cx['fluents']}"
            kf = next((k for k in known if all(x in detail for x in k.get("detail_contains", ["\0"]))), None)
            if kf is not None:
                rep.known(kf, 1)
            else:
                rep.violation(detail, {"property": "C10", "kind": "c10", "task": t, "cex": cx})
        elif r["outcome"] == "inconclusive":
            rep.inconclusive.append(f"{label}: {r.get('detail')}")
        elif r["outcome"] == "error":
            rep.errors.append(f"{label}: {r.get('detail')}")
        elif len(samples) < 4 and r["paths"] >= 4 and r["outcome"] == "held":
            samples.append({"task": json.loads(label), "paths": r["paths"], "obligations": r["obligations"],
                            "obligation_form": "pc /\\ not(forall steps, fluents: parsed value == serialized value) unsat; facts, "
                                               "fluent argument lists, action calls, component count and chaining compared per path"})
    if not twin():
        rep.twins_failed.append("vacuity twin: an altered value in the text was not noticed")
    q = dict(agg)
    q["solver_seconds"] = round(solver_s, 2)
    rep.coverage.update({
        "evaluations": len(tasks), "distinct_nontrivial": nontrivial,
        "rule": "one evaluation = one (single-agent plan | joint plan, allow switch, with/without the problem's object table, frame "
                "fluents) explored over all feasible paths of export -> file -> parse with every initial atom and fluent value symbolic; "
                "non-trivial = >=2 feasible paths",
        "samples": samples or [{"note": "none"}], "outcomes": dict(c), "paths": paths, "obligations": obligations, "queries": q,
        "unconfirmed_counterexamples": unconfirmed, "vacuity_twin_refuted": not rep.twins_failed, "exhaustive": False,
        "bounds": {"plans": "<=3 ground calls of the nine-action domain (incl. parameter-less actions) / <=2 joint actions of <=3 members "
                            "with nop padding over 3 agents", "state": "atoms and fluents the plan touches + 1-2 frame atoms (zero-arity, "
                            "repeated argument) + 1-3 frame fluents (zero-arity, two arguments, repeated argument)",
                   "readers": "TrajectoryParser with the problem's objects and with objects deduced from the first state",
                   "outside": "the text of numbers (repr/float of doubles: numbers travel as placeholder tokens; replayed with real "
                              "floats), -0.0/NaN/inf, trajectory files shipped with the repository (concrete files, no symbolic "
                              "dimension), longer plans"},
        "functions_executed_symbolically": ["TrajectoryExporter.parse_plan/create_single_triplet/export/export_to_file",
                                            "MultiAgentTrajectoryExporter.parse_plan/create_multi_agent_triplet/export/export_to_file",
                                            "State.serialize, PDDLFunction.state_representation, GroundedPredicate.untyped_representation",
                                            "PDDLTokenizer (file mode) .parse", "TrajectoryParser.parse_trajectory/parse_state/"
                                            "parse_grounded_predicate/parse_grounded_numeric_fluent/parse_action_call/parse_joint_action/"
                                            "deduce_problem_objects", "Observation/MultiAgentObservation.add_component"],
        "shims": ["str(number) -> placeholder token (one per value term)", "float(token) in trajectory_parser -> the value behind the token",
                  "math.isclose -> documented formula over reals"],
    })
    rep.assumptions += ["repr(float) is injective on values and float(repr(x)) == x (numbers travel as placeholder tokens)",
                        "real arithmetic", "reference = the exporter's own triplets (what was serialized)"]
    return rep.finish(total=len(tasks))


def replay(payload, path):
    cx = payload["cex"]
    rp = concrete_round_trip(payload["task"], cx["atoms"], cx["fluents"])
    print(json.dumps(callsym._jsonable(rp), indent=1))
    if rp["disagree"]:
        print(f"VIOLATION property=C10 replay={path}")
        return 1
    print("does not reproduce")
    return 0
