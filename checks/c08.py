"""C08 -- exporting a domain and parsing it back preserves vocabulary and behaviour.

(a) translation validation: D = parse(T), E = export(D), D' = parse(E).  Vocabulary of D and D' is
    compared exactly; for every action and argument tuple z3 must return unsat for
    "denote(D'.action)(args) differs from denote(D.action)(args)" over all atoms and fluent values;
    export(D') must equal E textually (a second round changes nothing).  Families: generated
    programs and every domain file under /repo/tests.
(b) behaviour, literally: bounded symbolic execution of is_applicable/apply of the *re-parsed*
    domain on symbolic states against the meaning of the original text (C02/C03 machinery).
The numeric-constant kernel (print at d digits, re-read within half a unit) is C12's print obligation.
"""
import glob
import itertools
import json
import os
import random
import time
import traceback

import re

import z3

import denote
from gen import programs as G
from ref import sexpr, sem as rsem
from . import lib, runner, callsym, families


def export_text(dom) -> str:
    from pddl_plus_parser.exporters import DomainExporter
    return DomainExporter().extract_domain(dom)


def synth_objects(dom, per_type=2):
    objs = {}
    for tn in dom.types:
        for i in range(per_type):
            objs[f"o_{tn.replace('-', '_')}_{i}"] = tn
    return objs


def arg_tuples_for(dom, action, objects, limit=3):
    allo = {n: dom.types[t] for n, t in objects.items()}
    for n, c in dom.constants.items():
        allo.setdefault(n, c.type)
    doms = []
    for pt in action.signature.values():
        d = [o for o, t in allo.items() if t.is_sub_type(pt)]
        if not d:
            return []
        doms.append(d[:3])
    out = []
    for tup in itertools.product(*doms):
        out.append(list(tup))
        if len(out) >= 40:
            break
    pick = []
    for t in out:
        if len(set(t)) < len(t) and len(pick) < 1:
            pick.append(t)
    for t in out:
        if t not in pick and len(pick) < limit:
            pick.append(t)
    return pick


def roundtrip(task):
    """task: {text | path, label, objects (optional)}"""
    res = {"label": task["label"], "outcome": "held", "detail": "", "queries": 0, "solver_s": 0.0, "calls": 0}
    try:
        text = task.get("text")
        if text is None:
            text = open(task["path"], encoding="utf-8").read()
        other = task.get("after_other")
        if other is not None:
            # this process handled another domain first (parsed, exported, parsed again): same names, other types / bodies.
            # Whatever happens to that one is not this task's subject; the round trip below must not depend on it.
            try:
                if not other.lstrip().startswith("("):
                    other = open(other, encoding="utf-8").read()
                lib.parse_domain(export_text(lib.parse_domain(other)))
            except Exception:  # noqa
                pass
        try:
            d1 = lib.parse_domain(text)
        except Exception as e:  # noqa -- not a C08 matter (C01): skip
            res["outcome"] = "unparsable_source"
            res["detail"] = f"{type(e).__name__}: {e}"
            return res
        try:
            e1 = export_text(d1)
        except Exception as e:  # noqa
            res["outcome"] = "violation"
            res["detail"] = f"export raised {type(e).__name__}: {e}"
            res["stage"] = "export"
            return res
        try:
            d2 = lib.parse_domain(e1)
        except Exception as e:  # noqa
            res["outcome"] = "violation"
            res["detail"] = f"the exported text cannot be parsed back: {type(e).__name__}: {e}"
            res["exported"] = e1[:1500]
            return res
        v1, v2 = denote.vocabulary(d1), denote.vocabulary(d2)
        diffs = [f"{k}: original {v1[k]} re-parsed {v2[k]}" for k in v1 if v1[k] != v2[k]]
        if diffs:
            res["outcome"] = "violation"
            res["detail"] = "vocabulary changed: " + "; ".join(diffs)[:600]
            return res
        objects = task.get("objects") or synth_objects(d1)
        eps = lib.lib_eps()
        vars_ = rsem.Vars()
        dn1 = denote.Denote(d1, objects, eps, vars_)
        dn2 = denote.Denote(d2, objects, eps, vars_)
        for an, a1 in d1.actions.items():
            a2 = d2.actions[an]
            for args in arg_tuples_for(d1, a1, objects, limit=task.get("args_limit", 3)):
                res["calls"] += 1
                try:
                    c1 = dn1.call(a1, args)
                except denote.DenoteError as e:
                    res["outcome"] = "undenotable_source"
                    res["detail"] = str(e)
                    return res
                try:
                    c2 = dn2.call(a2, args)
                except denote.DenoteError as e:
                    res["outcome"] = "violation"
                    res["detail"] = f"action {an}: the re-parsed model cannot be denoted: {e}"
                    return res
                t0 = time.time()
                d = denote.equivalent(c2, c1, vars_, assume=z3.And(c1.consistent, c1.defined))
                res["queries"] += 1
                res["solver_s"] += time.time() - t0
                if d is None:
                    continue
                if d[0] == "unknown":
                    res["outcome"] = "inconclusive"
                    res["detail"] = f"action {an} args {args}: equivalence query unknown"
                    return res
                res["outcome"] = "violation"
                from .c01 import _witness
                res["detail"] = f"action {an} args {args}: {d[0]} differs after export/parse" + _witness(d[1], vars_)
                return res
        # a second round changes nothing: same check with the exported text as the source (the exporter iterates
        # over hash sets, so the *text* may list effects in another order; vocabulary and meaning may not change)
        if not task.get("second_round"):
            r2 = roundtrip({"text": e1, "label": task["label"], "objects": objects, "second_round": True,
                            "args_limit": task.get("args_limit", 3)})
            res["queries"] += r2["queries"]
            res["solver_s"] += r2["solver_s"]
            res["calls"] += r2["calls"]
            if r2["outcome"] not in ("held",):
                res["outcome"] = r2["outcome"] if r2["outcome"] in ("violation", "inconclusive", "error") else "violation"
                res["detail"] = "second export/parse round: " + r2["detail"]
        return res
    except Exception as e:  # harness error
        res["outcome"] = "error"
        res["detail"] = f"{type(e).__name__}: {e} {traceback.format_exc()[-900:]}"
        return res


def _first_diff(a, b):
    la, lb = a.splitlines(), b.splitlines()
    for i, (x, y) in enumerate(zip(la, lb)):
        if x != y:
            return f"line {i}: {x!r} vs {y!r}"
    return f"{len(la)} vs {len(lb)} lines"


# constants representable at the exporter's precision for conditions (2 decimals)
TWO_DECIMALS = ["0", "1", "2", "-1", "0.5", "3.25", "10", "100000", "-100000.5", "0.25", "7.75"]


def generated_tasks(tier, seed):
    old = list(G.CONSTS)
    G.CONSTS[:] = TWO_DECIMALS  # constants representable at the exporter's precondition precision (2 decimals)
    try:
        pres = [(pl, True, t) for pl, t in G.core_preconditions()]
        effs = [(pl, True, t) for pl, t in G.core_effects()]
        # every curated program in both tiers; the sampled ones are fewer in the quick tier
        n = 40 if tier == "quick" else 1500
        pres += G.sampled_programs(seed * 17 + 1, n, "pre")
        effs += G.sampled_programs(seed * 17 + 2, n, "eff")
    finally:
        G.CONSTS[:] = old
    tasks = []
    m = max(len(pres), len(effs))
    for i in range(0, m):
        pl, const, pre = pres[i % len(pres)]
        pl2, const2, eff = effs[i % len(effs)]
        if pl2 != pl:
            eff = ["and"]
            const2 = False
        text = G.domain_text([("act", G.PARAM_LISTS[pl], pre, eff)], const=const or const2)
        tasks.append({"text": text, "label": f"pre {sexpr.render(pre)} eff {sexpr.render(eff)}", "objects": dict(G.OBJECTS)})
        if i % 5 == 0:
            tasks.append({"text": text, "label": f"[after the same domain with the roles of t1 and t2 exchanged] pre {sexpr.render(pre)} "
                                                  f"eff {sexpr.render(eff)}", "objects": dict(G.OBJECTS), "after_other": swapped_types(text)})
    # :constants sections of several shapes: groups of one type twice, a subtype, constants of the root type first / in
    # between / last, a trailing name without a type
    for label, consts in (("two_groups_same_type", ["k", "-", "t1", "c2", "-", "t2", "c3", "c4", "-", "t1"]),
                          ("subtype_and_root_last", ["k", "-", "t1", "c5", "-", "t3", "c6", "-", "object"]),
                          ("root_first", ["c0", "-", "object", "k", "-", "t1", "c5", "-", "t3"]),
                          ("root_in_between", ["k", "-", "t1", "c0", "c9", "-", "object", "c2", "-", "t2"]),
                          ("trailing_untyped", ["k", "-", "t1", "c7", "c8"])):
        d = G.domain_tree([("act", G.PARAM_LISTS["P2"], ["and", ["p", "k"], ["forall", ["?z", "-", "t1"], ["or", ["p", "?z"], ["q", "?x", "?z"]]]],
                            ["and", ["q", "?x", "k"], ["forall", ["?z", "-", "t2"], ["when", ["s", "?z"], ["not", ["s", "?z"]]]]])], const=True)
        for sec in d:
            if isinstance(sec, list) and sec and sec[0] == ":constants":
                sec[1:] = consts
        tasks.append({"text": G.pretty(d), "label": "constants " + label, "objects": dict(G.OBJECTS)})
    return tasks


def swapped_types(text: str) -> str:
    """the same domain text with the names t1 and t2 exchanged everywhere: every predicate, function and parameter keeps its
    name but is declared over the other type"""
    return re.sub(r"\bt([12])\b", lambda m: "t2" if m.group(1) == "1" else "t1", text)


def repo_domain_tasks():
    tasks = []
    seen = set()
    for p in sorted(glob.glob(os.path.join(lib.REPO, "tests", "**", "*.pddl"), recursive=True)):
        try:
            txt = open(p, encoding="utf-8").read()
        except Exception:  # noqa
            continue
        if "(domain" not in txt.lower() or "(:action" not in txt.lower():
            continue
        key = hash(txt)
        if key in seen:
            continue
        seen.add(key)
        tasks.append({"path": p, "label": "repo file " + os.path.relpath(p, lib.REPO)})
    # the repository's domains are variants of one another (same function and predicate names over other types): each one
    # again, after the process handled its neighbour
    for i, t in enumerate(list(tasks)):
        if len(tasks) > 1:
            tasks.append({"path": t["path"], "label": t["label"] + " [after " + os.path.basename(tasks[i - 1]["path"]) + "]",
                          "after_other": tasks[i - 1]["path"]})
    return tasks


def behaviour_tasks(tier, seed):
    """(b): the re-parsed domain executed symbolically against the meaning of the original text"""
    old = list(G.CONSTS)
    G.CONSTS[:] = TWO_DECIMALS
    try:
        ta = families.applicable_tasks(tier, seed + 101)
        tb = families.apply_tasks(tier, seed + 101, orders=[None])
    finally:
        G.CONSTS[:] = old
    rng = random.Random(seed)
    k = 120 if tier == "quick" else 1500
    picked = rng.sample(ta, min(k, len(ta))) + rng.sample(tb, min(k, len(tb)))
    for t in picked:
        t["max_paths"] = 500 if tier == "quick" else 4000
        t["cap"] = 8 if tier == "quick" else 10
        t["lib_transform"] = "export_reparse"
        t["label"] = "[re-parsed export] " + t["label"]
    return picked


def twin():
    """the equivalence machinery must refute a deliberately different pair"""
    t1 = G.domain_text([("act", G.PARAM_LISTS["P2"], ["and", ["p", "?x"]], ["and", ["q", "?x", "?y"]])], const=True)
    t2 = G.domain_text([("act", G.PARAM_LISTS["P2"], ["and", ["p", "?x"]], ["and", ["q", "?y", "?x"]])], const=True)
    d1, d2 = lib.parse_domain(t1), lib.parse_domain(t2)
    vars_ = rsem.Vars()
    eps = lib.lib_eps()
    c1 = denote.Denote(d1, G.OBJECTS, eps, vars_).call(d1.actions["act"], ["o1", "o2"])
    c2 = denote.Denote(d2, G.OBJECTS, eps, vars_).call(d2.actions["act"], ["o1", "o2"])
    return denote.equivalent(c1, c2, vars_) is not None


def _dispatch(t):
    if "mode" in t:
        return callsym.run_task(t)
    return roundtrip(t)


def main(tier):
    rep = runner.Report("C08", tier, "translation_validation")
    gen = generated_tasks(tier, runner.seed())
    repo = repo_domain_tasks()
    beh = behaviour_tasks(tier, runner.seed())
    tasks = gen + repo + beh
    results = runner.pmap(_dispatch, tasks)
    from collections import Counter
    c = Counter()
    queries = calls = 0
    solver_s = 0.0
    samples = []
    disagreements = 0
    beh_paths = 0
    known = runner.load_known("C08")
    for t, r in zip(tasks, results):
        c[("behaviour:" if "mode" in t else "roundtrip:") + r["outcome"]] += 1
        if "mode" in t:
            beh_paths += r.get("paths", 0)
            if r["outcome"] == "violation":
                disagreements += 1
                cx = r["cex"][0]
                rep.violation(f"{t['label']} args={t['args']}: {cx['what']}",
                              {"property": "C08", "kind": "callsym", "task": t, "atoms_true": cx["atoms_true"], "fluents": cx["fluents"]})
            elif r["outcome"] == "inconclusive":
                rep.inconclusive.append(f"{t['label']}: {r.get('detail')}")
            elif r["outcome"] == "error":
                rep.errors.append(f"{t['label']}: {r.get('detail')}")
            continue
        queries += r["queries"]
        calls += r["calls"]
        solver_s += r["solver_s"]
        if r["outcome"] == "violation":
            disagreements += 1
            k = next((k for k in known if k.get("match") and k["match"] in t["label"]
                      and all(x in r["detail"] for x in k.get("detail_contains", []))), None)
            if k is not None:
                rep.known(k)
                continue
            rep.violation(f"{t['label']}: {r['detail']}", {"property": "C08", "kind": "c08", "task": t, "detail": r["detail"]})
        elif r["outcome"] == "inconclusive":
            rep.inconclusive.append(f"{t['label']}: {r['detail']}")
        elif r["outcome"] == "error":
            rep.errors.append(f"{t['label']}: {r['detail']}")
        elif r["outcome"] == "held" and len(samples) < 5 and r["calls"] >= 2 and (len(samples) < 2 or "repo file" in t["label"]):
            samples.append({"program": t["label"], "calls": r["calls"],
                            "obligation": "unsat( denote(parse(export(D))) differs from denote(D) ) per action x arguments; "
                                          "export(parse(export(D))) == export(D)"})
    if not twin():
        rep.twins_failed.append("vacuity twin (two different domains) was not told apart")
    rep.coverage.update({
        "programs": len(gen) + len(repo), "disagreements_checked": disagreements, "samples": samples or [{"note": "none"}],
        "evaluations": calls + len(beh), "distinct_nontrivial": len({t.get("text") or t.get("path") for t in gen + repo}),
        "rule": "one program = one domain (generated text or repository file) exported and re-parsed; one evaluation = one (action, "
                "argument tuple) equivalence query over all states, or one symbolic execution of the re-parsed domain",
        "outcomes": {k: v for k, v in c.items()}, "smt_queries": queries, "solver_seconds": round(solver_s, 2),
        "repo_domain_files": len(repo), "behaviour_tasks": len(beh), "behaviour_paths": beh_paths, "exhaustive": False,
        "bounds": {"generated": "gen.programs families with constants representable at 2 decimals (the exporter prints "
                                "precondition constants with 2 decimals and effect constants with 4)",
                   "repo_files": "every *.pddl under /repo/tests that is a domain with actions; 2 synthetic objects per type",
                   "outside": "constants that are not representable at the exporter's precision (they survive only up to it)"},
    })
    rep.assumptions += ["denote.py reads both models faithfully", "ref.sem for (b)", "iteration order of the underlying sets: the one "
                        "of this interpreter run (PYTHONHASHSEED varies between runs)"]
    return rep.finish(total=len(tasks))


def replay(payload, path):
    r = roundtrip(payload["task"])
    print(json.dumps({k: r[k] for k in ("outcome", "detail")}, indent=1))
    if r["outcome"] == "violation":
        print(f"VIOLATION property=C08 replay={path}")
        return 1
    print("does not reproduce")
    return 0
