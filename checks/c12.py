"""C12 -- numeric expressions evaluate as arithmetic; comparisons use the stated tolerance;
assign/increase/decrease; print/re-read.

Bounded symbolic execution of the real numerical_expression kernel: construct_expression_tree,
set_expression_value, calculate, evaluate_expression (COMPARISON_OPERATORS, ASSIGNMENT_EXPRESSIONS),
NumericalExpressionTree.to_pddl/_convert_to_pddl.  Fluent values AND the numeric constants in the
tree are symbolic reals (constants are planted as SymReal leaves after the library built the tree),
tree shapes and operators are enumerated.  EPSILON / NUMERIC_PRECISION are read by the library at
import, so each configuration is a separate interpreter run.
"""
import itertools
import json
import os
import random
import subprocess
import sys
import time
from fractions import Fraction

import z3

from . import lib, runner
from symx import core
from symx.core import Ctx, SymReal, SymBool, Stats, explore, Inconclusive, Unsupported, PathLimit

LEAVES = ["F1", "F2", "C1", "C2"]
OPS = ["+", "-", "*", "/"]


def shapes(depth):
    if depth == 0:
        return list(LEAVES)
    out = list(LEAVES)
    sub = shapes(depth - 1)
    for op in OPS:
        for l in sub:
            for r in sub:
                out.append([op, l, r])
    return out


def to_ast(shape):
    """shape -> PDDL AST accepted by construct_expression_tree (constants are numerals that are
    replaced by symbolic leaves afterwards)"""
    if isinstance(shape, str):
        return {"F1": ["f", "?a"], "F2": ["g"], "C1": "1.5", "C2": "2.5"}[shape]
    return [shape[0], to_ast(shape[1]), to_ast(shape[2])]


V = {"F1": z3.Real("f1"), "F2": z3.Real("f2"), "C1": z3.Real("c1"), "C2": z3.Real("c2")}
# tasks marked "again" evaluate the SAME tree object first against another valuation of the fluents (these variables) and
# then against V: what a grounded operator does with its conditions and effects from one state to the next
VB = {"F1": z3.Real("f1b"), "F2": z3.Real("f2b")}


def _earlier(defined):
    """the definedness conditions of the earlier evaluation"""
    return [z3.substitute(d, (V["F1"], VB["F1"]), (V["F2"], VB["F2"])) for d in defined]


def oracle(shape, defined):
    if isinstance(shape, str):
        return V[shape]
    l, r = oracle(shape[1], defined), oracle(shape[2], defined)
    op = shape[0]
    if op == "+":
        return l + r
    if op == "-":
        return l - r
    if op == "*":
        return l * r
    defined.append(r != 0)
    return l / r


def domain_functions():
    from pddl_plus_parser.models import PDDLFunction, PDDLType
    t = PDDLType("object")
    return {"f": PDDLFunction(name="f", signature={"?a": t}), "g": PDDLFunction(name="g", signature={})}


def build_tree(ast):
    """the library builds the tree; constants become symbolic leaves"""
    from pddl_plus_parser.models import construct_expression_tree, PDDLFunction
    root = construct_expression_tree(ast, domain_functions())
    for node in [root] + list(root.descendants):
        if node.is_leaf and not isinstance(node.value, PDDLFunction):
            if node.value == 1.5:
                node.value = SymReal(V["C1"])
            elif node.value == 2.5:
                node.value = SymReal(V["C2"])
    return root


def state_fluents(src=None):
    src = src or V
    fs = domain_functions()
    f, g = fs["f"], fs["g"]
    f.set_value(SymReal(src["F1"]))
    g.set_value(SymReal(src["F2"]))
    return {f.untyped_representation: f, g.untyped_representation: g}


def cmp_oracle(op, l, r, eps):
    close = z3.And(l - r <= eps, r - l <= eps)
    return {"=": close, "<=": z3.Or(close, l < r), ">=": z3.Or(close, l > r), "<": l < r, ">": l > r,
            "!=": z3.Not(close)}[op]


def run_kernel(task):
    """task: {'kind': 'calc'|'cmp'|'assign'|'print', ...}"""
    lib.install_math_shim()
    from pddl_plus_parser.models import numerical_expression as ne
    from pddl_plus_parser.models.numerical_expression import (calculate, evaluate_expression, set_expression_value,
                                                              NumericalExpressionTree)
    eps = lib.lib_eps()
    epsz = z3.Q(eps.numerator, eps.denominator)
    res = {"task": task, "outcome": "held", "paths": 0, "cex": None, "obligations": 0}
    stats = Stats()
    kind = task["kind"]
    again = bool(task.get("again"))
    try:
        if kind == "calc":
            shape = task["shape"]
            defined = []
            exp = oracle(shape, defined)

            def fn(ctx):
                if not ctx.assume(z3.And([z3.BoolVal(True)] + defined + (_earlier(defined) if again else []))):
                    return None
                root = build_tree(to_ast(shape))
                if again:
                    set_expression_value(root, state_fluents(VB))
                    calculate(root)
                set_expression_value(root, state_fluents())
                return calculate(root)

            def on_path(ctx, pr):
                if pr.kind == "exc":
                    _cex(ctx, res, f"raised {type(pr.value).__name__}: {pr.value}", z3.BoolVal(True))
                    return
                if pr.value is None:
                    return
                v = pr.value
                ve = v.e if isinstance(v, SymReal) else core.exact(v)
                res["obligations"] += 1
                if core.prove_equal(ctx, ve, exp) is not None:
                    _cex(ctx, res, "value differs from prefix-order arithmetic", ve != exp)

        elif kind == "cmp":
            op, ls, rs = task["op"], task["lhs"], task["rhs"]
            defined = []
            le, re_ = oracle(ls, defined), oracle(rs, defined)
            exp = cmp_oracle(op, le, re_, epsz)

            def fn(ctx):
                if not ctx.assume(z3.And([z3.BoolVal(True)] + defined + (_earlier(defined) if again else []))):
                    return None
                root = build_tree([op, to_ast(ls), to_ast(rs)])
                if again:
                    set_expression_value(root, state_fluents(VB))
                    bool(evaluate_expression(root))
                set_expression_value(root, state_fluents())
                return bool(evaluate_expression(root))

            def on_path(ctx, pr):
                if pr.kind == "exc":
                    _cex(ctx, res, f"raised {type(pr.value).__name__}: {pr.value}", z3.BoolVal(True))
                    return
                if pr.value is None:
                    return
                res["obligations"] += 1
                neg = z3.BoolVal(pr.value) != exp
                if ctx.valid(z3.Not(neg)) is not None:
                    _cex(ctx, res, f"comparison answered {pr.value}", neg)

        elif kind == "assign":
            op, rs = task["op"], task["rhs"]
            defined = []
            r = oracle(rs, defined)
            old = V["F1"]
            exp = {"assign": r, "increase": old + r, "decrease": old - r}[op]

            def fn(ctx):
                if not ctx.assume(z3.And([z3.BoolVal(True)] + defined + (_earlier(defined) if again else []))):
                    return None
                root = build_tree([op, ["f", "?a"], to_ast(rs)])
                if again:
                    set_expression_value(root, state_fluents(VB))
                    evaluate_expression(root)
                fl = state_fluents()
                set_expression_value(root, fl)
                out = evaluate_expression(root)
                return out.value, fl["(f ?a)"].value

            def on_path(ctx, pr):
                if pr.kind == "exc":
                    _cex(ctx, res, f"raised {type(pr.value).__name__}: {pr.value}", z3.BoolVal(True))
                    return
                if pr.value is None:
                    return
                v, state_v = pr.value
                ve = v.e if isinstance(v, SymReal) else core.exact(v)
                sv = state_v.e if isinstance(state_v, SymReal) else core.exact(state_v)
                res["obligations"] += 2
                neg = z3.Or(ve != exp, sv != old)  # target updated; the state's own fluent object untouched
                if not (ve.eq(exp) and sv.eq(old)) and ctx.valid(z3.Not(neg)) is not None:
                    _cex(ctx, res, "assignment result differs (or the state's fluent object was modified)", neg)

        elif kind == "print":
            # leaf kernel of _convert_to_pddl on a symbolic constant c, digits d: read back within 1/2 * 10^-d
            d = task["digits"]
            shape = task["shape"]
            c1, c2 = V["C1"], V["C2"]

            def fn(ctx):
                ne.float, ne.int = core.sym_float, core.sym_int
                try:
                    root = build_tree(to_ast(shape))
                    text = NumericalExpressionTree(root).to_pddl(decimal_digits=d)
                    from pddl_plus_parser.lisp_parsers import PDDLTokenizer
                    ast = PDDLTokenizer(pddl_str=text).parse()
                    back = ne.construct_expression_tree(ast, domain_functions())
                    return root, back
                finally:
                    del ne.float, ne.int

            def on_path(ctx, pr):
                if pr.kind == "exc":
                    _cex(ctx, res, f"raised {type(pr.value).__name__}: {pr.value}", z3.BoolVal(True))
                    return
                root, back = pr.value
                obs = []
                _iso(root, back, obs, d)
                res["obligations"] += len(obs)
                neg = z3.Or([z3.BoolVal(False)] + [z3.Not(o) for o in obs])
                if ctx.valid(z3.Not(neg)) is not None:
                    _cex(ctx, res, f"re-read constant differs by more than half a unit of the {d}th decimal "
                                   f"(or the structure changed)", neg)
        else:
            raise ValueError(kind)
        explore(fn, on_path, stats=stats, max_paths=5000, timeout_ms=task.get("timeout_ms", 5000))
    except Inconclusive as e:
        res["outcome"] = "inconclusive"
        res["detail"] = str(e)
    except (Unsupported, PathLimit) as e:
        res["outcome"] = "inconclusive"
        res["detail"] = f"{type(e).__name__}: {e}"
    except Exception as e:  # noqa
        import traceback
        res["outcome"] = "error"
        res["detail"] = f"{type(e).__name__}: {e} {traceback.format_exc()[-800:]}"
    res["paths"] = stats.paths
    res["stats"] = stats.as_dict()
    return res


def _iso(a, b, obs, d):
    from pddl_plus_parser.models import PDDLFunction
    if a.is_leaf != b.is_leaf:
        obs.append(z3.BoolVal(False))
        return
    if a.is_leaf:
        if isinstance(a.value, PDDLFunction) or isinstance(b.value, PDDLFunction):
            ok = isinstance(a.value, PDDLFunction) and isinstance(b.value, PDDLFunction) and \
                a.value.untyped_representation == b.value.untyped_representation
            obs.append(z3.BoolVal(bool(ok)))
            return
        av = a.value.e if isinstance(a.value, SymReal) else core.exact(a.value)
        bv = b.value.e if isinstance(b.value, SymReal) else core.exact(b.value)
        scale = 10 ** d
        obs.append(z3.And(2 * scale * (av - bv) <= 1, 2 * scale * (bv - av) <= 1))
        return
    if a.value != b.value or len(a.children) != len(b.children):
        obs.append(z3.BoolVal(False))
        return
    for x, y in zip(a.children, b.children):
        _iso(x, y, obs, d)


def _cex(ctx, res, what, neg):
    """record + replay on the real library with doubles"""
    if res["outcome"] == "violation":
        return
    model = None
    for bound in (1000, 10 ** 7, None):
        cons = [neg]
        if bound:
            for v in list(V.values()) + list(VB.values()):
                cons += [v <= bound, v >= -bound]
        if ctx.check(*cons) == "sat":
            model = ctx.solver.model()
            break
    if model is None:
        return
    vals = {k: lib.to_float(core.zval(model, v)) for k, v in V.items()}
    if res["task"].get("again"):
        vals.update({k + "b": lib.to_float(core.zval(model, v)) for k, v in VB.items()})
    rp = replay_kernel(res["task"], vals)
    if not rp["disagree"]:
        # number printing lies outside the symbolic model: before a counterexample is counted as not reproducing it is
        # retried with values that need many significant digits (whole and fractional)
        for shift in (1234567.0, 86400001.0, 0.123456789, -7654321.25):
            vals2 = {k: v + shift for k, v in vals.items()}
            rp2 = replay_kernel(res["task"], vals2)
            if rp2["disagree"]:
                vals, rp = vals2, rp2
                break
    if rp["disagree"]:
        res["outcome"] = "violation"
        res["cex"] = {"what": what, "values": vals, "replay": rp}
    else:
        res["unconfirmed"] = res.get("unconfirmed", 0) + 1
        res.setdefault("unconfirmed_sample", {"what": what, "values": vals, "replay": rp})


def _concrete_tree(ast, vals):
    from pddl_plus_parser.models import construct_expression_tree, PDDLFunction
    root = construct_expression_tree(ast, domain_functions())
    for node in [root] + list(root.descendants):
        if node.is_leaf and not isinstance(node.value, PDDLFunction):
            if node.value == 1.5:
                node.value = vals["C1"]
                node.id = str(vals["C1"])
            elif node.value == 2.5:
                node.value = vals["C2"]
                node.id = str(vals["C2"])
    return root


def _concrete_fluents(vals, earlier=False):
    fs = domain_functions()
    fs["f"].set_value(vals["F1b" if earlier else "F1"])
    fs["g"].set_value(vals["F2b" if earlier else "F2"])
    return {fs["f"].untyped_representation: fs["f"], fs["g"].untyped_representation: fs["g"]}


def _exact(shape, vals):
    if isinstance(shape, str):
        return Fraction(vals[shape])
    l, r = _exact(shape[1], vals), _exact(shape[2], vals)
    return {"+": lambda: l + r, "-": lambda: l - r, "*": lambda: l * r, "/": lambda: l / r}[shape[0]]()


def replay_kernel(task, vals):
    """concrete doubles through the real library (no symbolic value anywhere) vs exact rationals"""
    from pddl_plus_parser.models.numerical_expression import (calculate, evaluate_expression, set_expression_value,
                                                              NumericalExpressionTree, construct_expression_tree)
    eps = lib.lib_eps()
    kind = task["kind"]
    again = bool(task.get("again")) and "F1b" in vals
    out = {"disagree": False}
    try:
        if kind == "calc":
            exp = _exact(task["shape"], vals)
            root = _concrete_tree(to_ast(task["shape"]), vals)
            if again:
                set_expression_value(root, _concrete_fluents(vals, earlier=True))
                calculate(root)
            set_expression_value(root, _concrete_fluents(vals))
            got = calculate(root)
            out.update(observed=got, expected=float(exp))
            out["disagree"] = abs(Fraction(got) - exp) > Fraction(1, 10 ** 9) * max(1, abs(exp))
        elif kind == "cmp":
            l, r = _exact(task["lhs"], vals), _exact(task["rhs"], vals)
            close = abs(l - r) <= eps
            exp = {"=": close, "<=": close or l < r, ">=": close or l > r, "<": l < r, ">": l > r, "!=": not close}[task["op"]]
            root = _concrete_tree([task["op"], to_ast(task["lhs"]), to_ast(task["rhs"])], vals)
            if again:
                set_expression_value(root, _concrete_fluents(vals, earlier=True))
                evaluate_expression(root)
            set_expression_value(root, _concrete_fluents(vals))
            got = bool(evaluate_expression(root))
            out.update(observed=got, expected=exp, lhs=float(l), rhs=float(r))
            out["disagree"] = got != exp
        elif kind == "assign":
            r = _exact(task["rhs"], vals)
            old = Fraction(vals["F1"])
            exp = {"assign": r, "increase": old + r, "decrease": old - r}[task["op"]]
            root = _concrete_tree([task["op"], ["f", "?a"], to_ast(task["rhs"])], vals)
            if again:
                set_expression_value(root, _concrete_fluents(vals, earlier=True))
                evaluate_expression(root)
            fl = _concrete_fluents(vals)
            set_expression_value(root, fl)
            got = evaluate_expression(root).value
            out.update(observed=got, expected=float(exp), state_fluent_after=fl["(f ?a)"].value)
            out["disagree"] = abs(Fraction(got) - exp) > Fraction(1, 10 ** 9) * max(1, abs(exp)) or \
                fl["(f ?a)"].value != vals["F1"]
        elif kind == "print":
            d = task["digits"]
            root = _concrete_tree(to_ast(task["shape"]), vals)
            text = NumericalExpressionTree(root).to_pddl(decimal_digits=d)
            from pddl_plus_parser.lisp_parsers import PDDLTokenizer
            back = construct_expression_tree(PDDLTokenizer(pddl_str=text).parse(), domain_functions())
            bad = []

            def walk(a, b):
                from pddl_plus_parser.models import PDDLFunction
                if a.is_leaf != b.is_leaf:
                    bad.append("shape")
                    return
                if a.is_leaf:
                    if isinstance(a.value, PDDLFunction) or isinstance(b.value, PDDLFunction):
                        if not (isinstance(a.value, PDDLFunction) and isinstance(b.value, PDDLFunction)):
                            bad.append("leaf kind")
                        return
                    if abs(Fraction(a.value) - Fraction(b.value)) > Fraction(1, 2 * 10 ** d) + Fraction(1, 10 ** 12):
                        bad.append((a.value, b.value))
                    return
                if a.value != b.value:
                    bad.append("op")
                for x, y in zip(a.children, b.children):
                    walk(x, y)

            walk(root, back)
            out.update(text=text, bad=[str(b) for b in bad])
            out["disagree"] = bool(bad)
    except ZeroDivisionError:
        out["observed"] = "ZeroDivisionError"
    except Exception as e:  # noqa
        out["observed"] = f"{type(e).__name__}: {e}"
        out["disagree"] = True
    return out


def tasks_for(tier, seed):
    rng = random.Random(seed * 31 + 7)
    s2 = shapes(2)  # 4 + 4*36... large; sample
    s1 = shapes(1)
    tasks = []
    # (a) calculate: all of depth <=1, all depth-2 over a reduced leaf set, sample of depth 3
    for sh in s1:
        tasks.append({"kind": "calc", "shape": sh})
    d2 = [s for s in s2 if s not in s1]
    rng.shuffle(d2)
    for sh in d2[: (500 if tier == "quick" else 1500)]:
        tasks.append({"kind": "calc", "shape": sh})
    d3 = []
    for _ in range(200 if tier == "quick" else 1500):
        d3.append([rng.choice(OPS), rng.choice(d2 + s1), rng.choice(d2 + s1)])
    for sh in d3:
        tasks.append({"kind": "calc", "shape": sh})
    if tier == "thorough":
        for _ in range(300):  # depth 4
            tasks.append({"kind": "calc", "shape": [rng.choice(OPS), rng.choice(d3), rng.choice(d3 + d2)]})
    # (b) comparisons
    nonleaf1 = [s for s in s1 if not isinstance(s, str)]
    lhs_pool = ["F1"] + nonleaf1
    rhs_pool = ["C1", "F2"] + rng.sample(nonleaf1, 10 if tier == "quick" else 30)
    for op in ["=", "<=", ">=", "<", ">", "!="]:
        for l in (lhs_pool if tier == "thorough" else lhs_pool[:1] + rng.sample(nonleaf1, 12)):
            for r in rhs_pool:
                tasks.append({"kind": "cmp", "op": op, "lhs": l, "rhs": r})
    # (c) assignments
    for op in ["assign", "increase", "decrease"]:
        for r in (s1 if tier == "thorough" else LEAVES + rng.sample(nonleaf1, 16)):
            tasks.append({"kind": "assign", "op": op, "rhs": r})
        for r in rng.sample(d2, 10 if tier == "quick" else 200):
            tasks.append({"kind": "assign", "op": op, "rhs": r})
    # (d) print / re-read
    for d in range(0, 7):
        for sh in ["C1", ["+", "F1", "C1"], ["*", ["-", "C1", "F2"], "C2"], ["/", "C1", "C2"]]:
            tasks.append({"kind": "print", "digits": d, "shape": sh})
    # (e) the same tree object evaluated a second time, against another valuation
    second = [dict(t, again=True) for i, t in enumerate(tasks) if t["kind"] in ("calc", "cmp", "assign") and i % 3 == 0]
    return tasks + second


def run_config(tier):
    tasks = tasks_for(tier, runner.seed())
    results = runner.pmap(run_kernel, tasks)
    return results


TWINS = [{"kind": "cmp", "op": "<", "lhs": "F1", "rhs": "C1", "twin": True}]


def sub_main(tier):
    """one interpreter = one (EPSILON, NUMERIC_PRECISION) configuration; JSON on stdout"""
    results = run_config(tier)
    # vacuity twin: '<' must NOT behave like '<=' -- an oracle deliberately wrong must be refuted
    tw = dict(TWINS[0])
    r = run_kernel({"kind": "cmp", "op": "<", "lhs": "F1", "rhs": "C1"})
    tw_ok = _twin()
    slim = []
    for r in results:
        slim.append({k: r.get(k) for k in ("task", "outcome", "paths", "cex", "obligations", "detail", "stats",
                                            "unconfirmed", "unconfirmed_sample")})
    json.dump({"results": slim, "twin_ok": tw_ok, "eps": float(lib.lib_eps()),
               "digits": os.environ.get("NUMERIC_PRECISION", "4")}, sys.stdout, default=str)
    return 0


def _twin():
    """harness self-test: with a deliberately wrong expectation ('<' treated as '<=') the
    machinery must find and replay a counterexample."""
    lib.install_math_shim()
    from pddl_plus_parser.models.numerical_expression import evaluate_expression, set_expression_value
    eps = lib.lib_eps()
    epsz = z3.Q(eps.numerator, eps.denominator)
    found = []

    def fn(ctx):
        root = build_tree(["<", ["f", "?a"], "1.5"])
        set_expression_value(root, state_fluents())
        return bool(evaluate_expression(root))

    def on_path(ctx, pr):
        wrong = cmp_oracle("<=", V["F1"], V["C1"], epsz)
        if ctx.check(z3.BoolVal(pr.value) != wrong) == "sat":
            m = ctx.solver.model()
            vals = {k: lib.to_float(core.zval(m, v)) for k, v in V.items()}
            rp = replay_kernel({"kind": "cmp", "op": "<", "lhs": "F1", "rhs": "C1"}, vals)
            # the real library says not(<) where the wrong oracle says <=
            l, r = Fraction(vals["F1"]), Fraction(vals["C1"])
            if rp["observed"] != (abs(l - r) <= eps or l < r):
                found.append(vals)

    explore(fn, on_path)
    return bool(found)


# EPSILON=0 asks for exact comparisons (a "value or default" reading of the setting would silently use the default instead)
CONFIGS_QUICK = [{}, {"EPSILON": "0.01", "NUMERIC_PRECISION": "2"}, {"EPSILON": "0"}]
CONFIGS_THOROUGH = [{}, {"EPSILON": "0.01", "NUMERIC_PRECISION": "2"}, {"EPSILON": "1e-9", "NUMERIC_PRECISION": "6"},
                    {"EPSILON": "0.5", "NUMERIC_PRECISION": "0"}, {"EPSILON": "0"}, {"EPSILON": "0.0", "NUMERIC_PRECISION": "1"}]


def main(tier):
    rep = runner.Report("C12", tier, "other")
    configs = CONFIGS_QUICK if tier == "quick" else CONFIGS_THOROUGH
    from collections import Counter
    c = Counter()
    total = paths = obligations = 0
    nontrivial = set()
    samples = []
    agg = Counter()
    solver_s = 0.0
    unconfirmed = 0
    per_config = []
    for cfg in configs:
        env = dict(os.environ)
        env.pop("EPSILON", None)
        env.pop("NUMERIC_PRECISION", None)
        env.update(cfg)
        p = subprocess.run([sys.executable, "-B", "-m", "checks.c12", "--sub", tier], env=env, capture_output=True,
                           text=True, cwd=runner.VERIF)
        if p.returncode != 0 or not p.stdout.strip():
            rep.errors.append(f"config {cfg}: subprocess failed rc={p.returncode} {p.stderr[-600:]}")
            continue
        data = json.loads(p.stdout)
        if not data["twin_ok"]:
            rep.twins_failed.append(f"config {cfg}: vacuity twin ('<' against a '<=' oracle) was not refuted")
        cc = Counter()
        for r in data["results"]:
            total += 1
            cc[r["outcome"]] += 1
            c[r["outcome"]] += 1
            paths += r.get("paths") or 0
            obligations += r.get("obligations") or 0
            unconfirmed += r.get("unconfirmed") or 0
            st = r.get("stats") or {}
            for k in runner.STAT_KEYS:
                agg[k] += st.get(k, 0)
            solver_s += st.get("solver_seconds", 0.0)
            if (r.get("paths") or 0) >= 2:
                nontrivial.add(json.dumps(r["task"], sort_keys=True))
            if r["outcome"] == "violation":
                rep.violation(f"config {cfg or 'default'} {r['task']}: {r['cex']['what']} at {r['cex']['values']}",
                              {"property": "C12", "kind": "c12", "config": cfg, "task": r["task"],
                               "values": r["cex"]["values"], "observed_vs_expected": r["cex"]["replay"]})
            elif r["outcome"] == "inconclusive":
                rep.inconclusive.append(f"{cfg} {r['task']}: {r.get('detail')}")
            elif r["outcome"] == "error":
                rep.errors.append(f"{cfg} {r['task']}: {r.get('detail')}")
            elif len(samples) < 5 and (r.get("paths") or 0) >= 3:
                samples.append({"config": cfg or "default", "task": r["task"], "paths": r["paths"],
                                "obligation": "pc /\\ not(library value == oracle term) is unsat"})
        per_config.append({"config": cfg or "default", "EPSILON": data["eps"], "NUMERIC_PRECISION": data["digits"],
                           "outcomes": dict(cc)})
    # the same assignments through a grounded operator: two numeric effects of one action that read each other's targets (a
    # zero-arity fluent among them), every argument tuple, both iteration orders of the effect set -- the simultaneous
    # semantics "old + v" must hold for each target (the kernels above evaluate one tree at a time)
    from . import callsym
    from gen import programs as G
    grounded = []
    for eff in (["and", ["increase", ["g"], ["f", "?x"]], ["increase", ["f", "?x"], ["g"]]],
                ["and", ["assign", ["g"], ["f", "?x"]], ["decrease", ["f", "?y"], ["g"]]],
                ["and", ["decrease", ["g"], ["*", ["g"], "0.5"]], ["assign", ["f", "?x"], ["+", ["g"], ["f", "?y"]]]],
                ["and", ["increase", ["h", "?x", "?y"], ["g"]], ["assign", ["g"], ["h", "?x", "?y"]], ["decrease", ["f", "?x"], ["g"]]]):
        text_ = G.domain_text([("act", G.PARAM_LISTS["P2"], ["and"], eff)], const=False)
        for args in (["o1", "o2"], ["o1", "o1"]):
            for order in (None, 1, 2):
                grounded.append(dict(domain_text=text_, action="act", args=args, objects=dict(G.OBJECTS), mode="apply", order=order,
                                     label="[through a grounded operator] " + str(eff), cap=8, max_paths=500))
            # ... and applied twice in a row by the same operator object (old + v is about the state the call is given)
            grounded.append(dict(domain_text=text_, action="act", args=args, objects=dict(G.OBJECTS), mode="reapply", order=None,
                                 label="[through a grounded operator, twice] " + str(eff), cap=8, max_paths=500))
    g_out = Counter()
    for t, r in zip(grounded, runner.pmap(callsym.run_task, grounded)):
        total += 1
        g_out[r["outcome"]] += 1
        c[r["outcome"]] += 1
        paths += r.get("paths", 0)
        obligations += r.get("obligations", 0)
        unconfirmed += r.get("unconfirmed", 0)
        if r["outcome"] == "violation":
            cx = r["cex"][0]
            rep.violation(f"{t['label']} args={t['args']} order={t['order']}: {cx['what']}",
                          {"property": "C12", "kind": "callsym", "task": t, "atoms_true": cx["atoms_true"], "fluents": cx["fluents"],
                           "observed_vs_expected": cx["replay"]})
        elif r["outcome"] == "inconclusive":
            rep.inconclusive.append(f"{t['label']} {t['args']}: {r.get('detail')}")
        elif r["outcome"] == "error":
            rep.errors.append(f"{t['label']} {t['args']}: {r.get('detail')}")
    q = dict(agg)
    q["solver_seconds"] = round(solver_s, 2)
    rep.coverage.update({
        "through_a_grounded_operator": {"tasks": len(grounded), "outcomes": dict(g_out)},
        "evaluations": total, "distinct_nontrivial": len(nontrivial),
        "rule": "one evaluation = one (configuration, kernel, tree shape/operator) explored over all feasible paths with "
                "symbolic fluent values and symbolic constants; non-trivial = >=2 feasible paths (a division or a "
                "comparison forks); distinct = distinct task descriptions",
        "samples": samples or [{"note": "none"}], "outcomes": dict(c), "paths": paths, "obligations": obligations,
        "queries": q, "configurations": per_config, "unconfirmed_counterexamples": unconfirmed, "exhaustive": False,
        "functions_executed_symbolically": ["construct_expression_tree", "set_expression_value", "calculate",
                                            "evaluate_expression", "COMPARISON_OPERATORS", "ASSIGNMENT_EXPRESSIONS (increase/"
                                            "decrease/assign)", "NumericalExpressionTree.to_pddl/_convert_to_pddl",
                                            "PDDLTokenizer.parse (re-read of the printed placeholder text)"],
        "shims": ["math.isclose (documented formula over reals)", "float()/int() in numerical_expression's namespace: identity "
                  "/ truncation toward zero as a fresh Int", "'{:.Nf}'.format of a symbolic real: a fresh multiple of 10^-N within "
                  "half a unit, printed as an opaque placeholder token that float() maps back"],
        "bounds": {"tree_shapes": "all of depth <=1 (68), sampled depth 2 and 3 (thorough: +depth 4) over + - * / with leaves "
                                  "{2 fluents, 2 constants}", "operators": "= <= >= < > != ; assign increase decrease",
                   "digits": "0..6", "outside": "IEEE rounding/overflow/NaN; missing fluents (read as 0 by the library); "
                                                "scale-up/scale-down"},
    })
    rep.assumptions += ["all fluents defined; denominators non-zero (asserted before execution)",
                        "real arithmetic instead of IEEE doubles", "format(x,'.Nf') rounds to a nearest multiple of 10^-N"]
    return rep.finish(total=total)


def replay(payload, path):
    env_needed = payload.get("config") or {}
    for k, v in env_needed.items():
        if os.environ.get(k) != v:
            env = dict(os.environ)
            env.update(env_needed)
            return subprocess.call([sys.executable, "-B", "-m", "checks.main", "C12", "--replay", path], env=env,
                                   cwd=runner.VERIF)
    out = replay_kernel(payload["task"], payload["values"])
    print(json.dumps(out, indent=1, default=str))
    if out["disagree"]:
        print(f"VIOLATION property=C12 replay={path}")
        return 1
    print("does not reproduce")
    return 0


if __name__ == "__main__":
    if len(sys.argv) >= 3 and sys.argv[1] == "--sub":
        sys.exit(sub_main(sys.argv[2]))
