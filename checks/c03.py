"""C03 -- applying an action yields exactly the PDDL successor state.

Bounded symbolic execution of the real Operator.apply (State.copy, GroundedEffect.*,
_apply_universal_effects, ASSIGNMENT_EXPRESSIONS) from a symbolic state assumed applicable and
consistent; per path z3 decides that every atom and fluent of the successor equals the oracle's
term, that the frame is untouched, and that the argument state is unchanged.  The iteration
order of every effect collection is an enumerated schedule (PermSet).
"""
import os

from . import callsym, families, runner
from .c02 import summarize, SHIMS


def twins():
    from gen import programs as G
    out = []
    for eff in (["and", ["p", "?x"]], ["and", ["when", ["r"], ["not", ["q", "?x", "?y"]]]],
                ["and", ["forall", ["?z", "-", "t1"], ["when", ["p", "?z"], ["not", ["p", "?z"]]]]]):
        text = G.domain_text([("act", G.PARAM_LISTS["P2"], ["and"], eff)], const=True)
        out.append(dict(domain_text=text, action="act", args=["o1", "o2"], objects=dict(G.OBJECTS), mode="apply",
                        label="TWIN " + str(eff), cap=12, twin="successor_equals_predecessor"))
    return out


FUNCTIONS = ["Operator.apply", "Operator.ground/_ground_conditional_effects/_apply_universal_effects",
             "GroundedEffect.ground_conditional_effect/antecedents_hold/apply/_apply_discrete_effects/"
             "_update_single_numeric_expression", "GroundedPrecondition.* (applicability guard, antecedents)",
             "numerical_expression.evaluate_expression/ASSIGNMENT_EXPRESSIONS/set_expression_value/calculate",
             "State.copy/serialize", "GroundedPredicate.copy, PDDLFunction.copy"]


def main(tier: str) -> int:
    rep = runner.Report("C03", tier, "other")
    tasks = families.apply_tasks(tier, runner.seed())
    n_once = len(tasks)
    tasks += families.reapply_tasks(tier, runner.seed())
    tw = twins()
    results = runner.pmap(callsym.run_task, tasks + tw, chunksize=4)
    summarize(rep, tasks, results[: len(tasks)], "apply")
    for t, r in zip(tw, results[len(tasks):]):
        if r["outcome"] != "violation":
            rep.twins_failed.append(f"vacuity twin did not come back violated: {t['label']} -> {r['outcome']}")
    rep.coverage["vacuity_twins"] = {"run": len(tw), "violated_as_required": len(tw) - len(rep.twins_failed)}
    rep.coverage["functions_executed_symbolically"] = FUNCTIONS
    rep.coverage["shims"] = SHIMS
    rep.coverage["applied_twice_by_the_same_operator_object"] = len(tasks) - n_once
    rep.coverage["bounds"] = {
        "programs": "curated core + VERIF_SEED-sampled effects: <=3 unconditional literals/numeric updates, <=2 when groups "
                    "(<=2 condition literals, <=2 results), <=1 forall-when over t1/t3; half of the sampled programs also "
                    "carry a precondition",
        "iteration_orders": "natural + reversed (quick); natural + 3 permutations (thorough) of discrete/numeric/"
                            "conditional/universal effect sets, grounded effect groups and the problem-object table",
        "argument_tuples_per_program": 3 if tier == "quick" else 4,
        "re_application": "programs with a numeric effect are also applied twice in a row by the same Operator object "
                          "(every third such program in the quick tier, all in the thorough tier); oracle = the call "
                          "semantics composed with itself; both applications assumed applicable and consistent",
        "symbolic_atoms_cap": 8 if tier == "quick" else 11,
        "max_paths_per_task": 1500 if tier == "quick" else 6000,
        "outside": "float rounding (reals, not doubles); inconsistent effect sets (assumed away, counted vacuous when "
                   "always inconsistent); states beyond the atom cap",
    }
    rep.assumptions += ["the call is applicable and its simultaneously firing effects are consistent (asserted before "
                        "execution; satisfiability checked, otherwise the task is counted vacuous)",
                        "every fluent is defined; no division by zero", "real arithmetic instead of IEEE doubles",
                        "the oracle ref.sem"]
    return rep.finish(total=len(tasks))
