"""C06 -- the subtype relation is the closure of the declared type tree, in any order.

(a) Bounded symbolic execution of the real DomainParser.parse_types and PDDLType.is_sub_type on
    declaration skeletons whose *names* are finite-domain symbolic tokens: a proxy that forks inside the
    library code the first time the code compares or hashes it.  The aliasing pattern between names --
    which is what makes a forest, and what "children before parents" means -- is therefore chosen by
    the solver under the well-formedness assumptions (unique left-hand sides, acyclic), not by a
    generator.  Assertion: is_sub_type == reflexive-transitive closure with 'object' as root, for all
    pairs of names, and every name that occurs is a registered type.
(b) consumers that *range over* a type: the C02/C03 harness on forall conditions/effects over a
    three-level chain declared children-first, with objects at every level (states symbolic).
(c) consumers that *check* a type: ProblemParser.parse_objects/_validate_object_types/
    parse_grounded_numeric_fluent accept a fact exactly when the object's declared type (a
    finite-domain symbolic token) is a subtype of the required type.
"""
import itertools
import json
import logging
import random

import z3

from . import lib, runner, callsym
from gen import programs as G
from ref import sexpr
from symx.core import Ctx, SymBool, Stats, explore, Inconclusive, Unsupported, PathLimit

VOC = ["a", "b", "c", "d", "e", "object"]
OBJ = VOC.index("object")


class FinStr:
    """finite-domain symbolic token over VOC: forks inside the code at first observation"""

    def __init__(self, var, voc=VOC):
        self.v = var
        self.c = None
        self.voc = voc

    def concretize(self):
        if self.c is None:
            for i, w in enumerate(self.voc):
                if Ctx.cur.decide(self.v == i):
                    self.c = w
                    break
            else:
                raise Unsupported("finite domain exhausted")
        return self.c

    def __eq__(self, o):
        if isinstance(o, FinStr):
            if self.c is not None and o.c is not None:
                return self.c == o.c
            return SymBool(self.v == o.v)
        if isinstance(o, str):
            if self.c is not None:
                return self.c == o
            return SymBool(self.v == self.voc.index(o)) if o in self.voc else False
        return False

    def __ne__(self, o):
        r = self.__eq__(o)
        return SymBool(z3.Not(r.e)) if isinstance(r, SymBool) else (not r)

    def __hash__(self):
        return hash(self.concretize())

    def lower(self):
        return self.concretize().lower()

    def __str__(self):
        return self.concretize()

    def __format__(self, spec):
        return format(self.concretize(), spec)

    def startswith(self, p):
        return self.concretize().startswith(p)


def _parser():
    from pddl_plus_parser.lisp_parsers.domain_parser import DomainParser
    dp = DomainParser.__new__(DomainParser)
    dp.logger = logging.getLogger("verif")
    return dp


def closure_term(child_vars, parent_vars, x, y, depth):
    """z3: type value x is (reflexively, transitively) below type value y"""
    terms = [x == y, y == OBJ]
    level = x
    for _ in range(depth):
        nxt = z3.IntVal(OBJ)
        for c, p in zip(child_vars, parent_vars):
            nxt = z3.If(c == level, p, nxt)
        level = nxt
        terms.append(level == y)
    return z3.Or(terms)


def run_types_task(task):
    """skeleton: list of groups; a group is (number of children, has_parent)"""
    skeleton = task["skeleton"]
    res = {"task": task, "outcome": "held", "paths": 0, "cex": None, "obligations": 0}
    stats = Stats()
    nv = len(VOC) - 1  # names other than 'object' may be children
    child_vars, parent_of_child, group_parent = [], [], []
    gi = 0
    for n, has_parent in skeleton:
        pv = z3.Int(f"p{gi}") if has_parent else None
        group_parent.append(pv)
        for k in range(n):
            cv = z3.Int(f"c{gi}_{k}")
            child_vars.append(cv)
            parent_of_child.append(pv if pv is not None else z3.IntVal(OBJ))
        gi += 1
    allvars = child_vars + [p for p in group_parent if p is not None]
    depth = len(child_vars)

    def assumptions():
        a = [z3.And(v >= 0, v < nv) for v in child_vars]
        a += [z3.And(p >= 0, p <= OBJ) for p in group_parent if p is not None]
        a += [child_vars[i] != child_vars[j] for i in range(len(child_vars)) for j in range(i)]  # unique left-hand sides
        for c, p in zip(child_vars, parent_of_child):  # acyclic
            lvl = p
            for _ in range(depth):
                a.append(lvl != c)
                nxt = z3.IntVal(OBJ)
                for c2, p2 in zip(child_vars, parent_of_child):
                    nxt = z3.If(c2 == lvl, p2, nxt)
                lvl = nxt
        fx = task.get("fix")
        if fx is not None:  # partition of the exploration for parallelism
            a.append(child_vars[0] == fx[0])
            if group_parent[0] is not None:
                a.append(group_parent[0] == fx[1])
        return z3.And(a)

    def fn(ctx: Ctx):
        if not ctx.assume(assumptions()):
            return None
        toks = []
        names = []
        i = 0
        for (n, has_parent), pv in zip(skeleton, group_parent):
            for k in range(n):
                t = FinStr(child_vars[i])
                i += 1
                toks.append(t)
                names.append(t)
            if has_parent:
                p = FinStr(pv)
                toks += ["-", p]
                names.append(p)
        types = _parser().parse_types(toks)
        registered = set(types.keys())
        answers = {}
        concrete = [n.concretize() for n in names] + ["object"]
        missing = [n for n in concrete if n not in registered]
        for x in sorted(set(concrete) - set(missing)):
            for y in sorted(set(concrete) - set(missing)):
                answers[(x, y)] = bool(types[x].is_sub_type(types[y]))
        # the hierarchy graph built from the same types: y reaches x along parent->child edges iff x is below y
        from pddl_plus_parser.models import create_type_hierarchy_graph
        import networkx as nx
        g = create_type_hierarchy_graph(types)
        below_ = {y: (nx.descendants(g, y) if y in g else set()) for y in {k[1] for k in answers}}
        for (x, y), got in list(answers.items()):
            answers[("graph", x, y)] = ((x == y or x in below_[y]) == got)
        return concrete, missing, answers

    def on_path(ctx: Ctx, pr):
        if pr.kind == "exc":
            _types_cex(ctx, res, skeleton, child_vars, group_parent, f"parse_types raised {type(pr.value).__name__}: {pr.value}")
            return
        if pr.value is None:
            return
        concrete, missing, answers = pr.value
        res["obligations"] += len(answers) + 1
        if missing:
            _types_cex(ctx, res, skeleton, child_vars, group_parent, f"names {missing} occur in the declaration but are not registered as types")
            return
        graph_bad = [k[1:] for k, ok in answers.items() if len(k) == 3 and not ok]
        if graph_bad:
            _types_cex(ctx, res, skeleton, child_vars, group_parent, f"create_type_hierarchy_graph disagrees with is_sub_type for {graph_bad[:3]}")
            return
        answers = {k: v for k, v in answers.items() if len(k) == 2}
        obs = []
        for (x, y), got in answers.items():
            exp = closure_term(child_vars, parent_of_child, z3.IntVal(VOC.index(x)), z3.IntVal(VOC.index(y)), depth)
            obs.append(z3.BoolVal(got) == exp)
        if ctx.valid(z3.And(obs)) is not None:
            bad = [(x, y) for ((x, y), got), o in zip(answers.items(), obs) if ctx.check(z3.Not(o)) == "sat"]
            _types_cex(ctx, res, skeleton, child_vars, group_parent, f"is_sub_type wrong for {bad[:3]}")

    try:
        explore(fn, on_path, stats=stats, max_paths=300000, timeout_ms=10000)
    except Inconclusive as e:
        res["outcome"], res["detail"] = "inconclusive", str(e)
    except (Unsupported, PathLimit) as e:
        res["outcome"], res["detail"] = "inconclusive", f"{type(e).__name__}: {e}"
    except Exception as e:  # noqa
        import traceback
        res["outcome"], res["detail"] = "error", f"{type(e).__name__}: {e} {traceback.format_exc()[-800:]}"
    res["paths"] = stats.paths
    res["stats"] = stats.as_dict()
    return res


def _types_cex(ctx, res, skeleton, child_vars, group_parent, desc):
    if res["outcome"] == "violation":
        return
    if ctx.check() != "sat":
        return
    m = ctx.solver.model()
    toks = []
    i = 0
    for (n, has_parent), pv in zip(skeleton, group_parent):
        for k in range(n):
            toks.append(VOC[m.eval(child_vars[i], model_completion=True).as_long()])
            i += 1
        if has_parent:
            toks += ["-", VOC[m.eval(pv, model_completion=True).as_long()]]
    bad = replay_types(toks)
    if bad:
        res["outcome"] = "violation"
        res["cex"] = {"what": desc, "types_tokens": toks, "wrong": bad[:4]}
    else:
        res["unconfirmed"] = res.get("unconfirmed", 0) + 1


def replay_types(toks):
    """concrete declaration through the real parser vs the closure computed from ref.pddl"""
    from ref.pddl import typed_list
    parent = {"object": None}
    pairs = typed_list(toks)
    for c, p in pairs:
        if c != "object":
            parent[c] = p
    for _, p in pairs:
        parent.setdefault(p, "object")

    def below(x, y):
        seen = set()
        while x is not None and x not in seen:
            if x == y:
                return True
            seen.add(x)
            x = parent.get(x)
        return False

    try:
        types = _parser().parse_types(list(toks))
    except Exception as e:  # noqa
        return [f"raised {type(e).__name__}: {e}"]
    bad = []
    for x in parent:
        if x not in types:
            bad.append(f"{x} not registered")
    for x in parent:
        for y in parent:
            if x in types and y in types and bool(types[x].is_sub_type(types[y])) != below(x, y):
                bad.append(f"is_sub_type({x},{y}) = {not below(x, y)}, closure says {below(x, y)}")
    try:
        from pddl_plus_parser.models import create_type_hierarchy_graph
        import networkx as nx
        g = create_type_hierarchy_graph(types)
        for x in parent:
            for y in parent:
                if x in types and y in types:
                    in_graph = x == y or (x in g and y in g and x in nx.descendants(g, y))
                    if in_graph != below(x, y):
                        bad.append(f"hierarchy graph: {y} reaches {x} = {in_graph}, closure says {below(x, y)}")
    except Exception as e:  # noqa
        bad.append(f"create_type_hierarchy_graph raised {type(e).__name__}: {e}")
    return bad


# ---------------------------------------------------------------------------------------------
# (b) consumers that range over a type
# ---------------------------------------------------------------------------------------------
CHAIN_TYPES = ["t4", "-", "t3", "t3", "-", "t1", "t1", "t2", "-", "object"]  # children first
CHAIN_OBJECTS = {"o1": "t1", "o3": "t3", "o4": "t4", "u1": "t2"}


def range_tasks(tier):
    P1 = [("?x", "t1")]
    progs = [
        ("applicable", ["and", ["forall", ["?z", "-", "t1"], ["and", ["p", "?z"]]]], ["and"]),
        ("applicable", ["and", ["forall", ["?z", "-", "t3"], ["or", ["p", "?z"], ["q", "?x", "?z"]]]], ["and"]),
        ("applicable", ["and", ["p", "?x"], ["forall", ["?z", "-", "t1"], ["and", [">=", ["f", "?z"], "0"]]]], ["and"]),
        ("apply", ["and"], ["and", ["forall", ["?z", "-", "t1"], ["when", ["p", "?z"], ["not", ["p", "?z"]]]]]),
        ("apply", ["and"], ["and", ["forall", ["?z", "-", "t3"], ["when", ["not", ["p", "?z"]], ["and", ["p", "?z"], ["increase", ["f", "?z"], "1"]]]]]),
        ("apply", ["and", ["p", "?x"]], ["and", ["forall", ["?z", "-", "t1"], ["when", ["q", "?z", "?x"], ["not", ["q", "?z", "?x"]]]]]),
        # the root type itself, a leaf of the chain and the sibling type as quantified types (ob is declared over object)
        ("applicable", ["and", ["forall", ["?z", "-", "object"], ["or", ["ob", "?z"], ["r"]]]], ["and"]),
        ("apply", ["and"], ["and", ["forall", ["?z", "-", "object"], ["when", ["r"], ["ob", "?z"]]]]),
        ("apply", ["and"], ["and", ["forall", ["?z", "-", "object"], ["when", ["ob", "?z"], ["not", ["ob", "?z"]]]], ["r"]]),
        ("apply", ["and"], ["and", ["forall", ["?z", "-", "t4"], ["when", ["not", ["p", "?z"]], ["p", "?z"]]]]),
        ("applicable", ["and", ["forall", ["?z", "-", "t2"], ["and", ["s", "?z"]]]], ["and"]),
        # the quantifier below a nested junction and inside the condition of a conditional effect
        ("applicable", ["and", ["or", ["r"], ["forall", ["?z", "-", "t1"], ["and", ["p", "?z"]]]]], ["and"]),
        ("applicable", ["and", ["or", ["not", ["p", "?x"]], ["forall", ["?z", "-", "t3"], ["or", ["p", "?z"], ["q", "?x", "?z"]]]]], ["and"]),
        ("apply", ["and"], ["and", ["when", ["forall", ["?z", "-", "t1"], ["or", ["p", "?z"], ["q", "?x", "?z"]]], ["r"]]]),
        # the quantified variable has the name of the action's parameter (?x - t1) and another type
        ("apply", ["and"], ["and", ["forall", ["?x", "-", "t3"], ["when", ["not", ["p", "?x"]], ["p", "?x"]]]]),
        ("apply", ["and"], ["and", ["forall", ["?x", "-", "object"], ["when", ["r"], ["ob", "?x"]]]]),
        ("apply", ["and"], ["and", ["forall", ["?x", "-", "t2"], ["when", ["not", ["s", "?x"]], ["s", "?x"]]]]),
        ("applicable", ["and", ["forall", ["?x", "-", "t4"], ["and", ["p", "?x"]]]], ["and"]),
    ]
    tasks = []
    for mode, pre, eff in progs:
        for const in (False, True):
            text = G.domain_text([("act", P1, pre, eff)], const=const, types=CHAIN_TYPES,
                                 extra_predicates=[["ob", "?o", "-", "object"]])
            for args in (["o1"], ["o4"]):
                tasks.append(dict(domain_text=text, action="act", args=args, objects=dict(CHAIN_OBJECTS), mode=mode,
                                  label=f"[chain declared children-first] pre {sexpr.render(pre)} eff {sexpr.render(eff)}",
                                  cap=11, kind="range"))
    return tasks


# ---------------------------------------------------------------------------------------------
# (c) consumers that check a type
# ---------------------------------------------------------------------------------------------
TVOC = ["t1", "t2", "t3", "t4", "object"]


def run_accept_task(task):
    """a problem fact/fluent over an object whose declared type is a finite-domain symbolic token"""
    from pddl_plus_parser.lisp_parsers import ProblemParser
    from pddl_plus_parser.models import Problem
    res = {"task": task, "outcome": "held", "paths": 0, "cex": None, "obligations": 0}
    stats = Stats()
    # `gr` uses pa/pb/fa over parameters of OTHER types than the predicates declare (more general and more specific): grounding
    # it (task["after_grounding"]) must leave the declared types, which the fact checks below consult, as they are
    text = G.domain_text([("act", [], ["and"], ["and"]),
                          ("gr", [("?o", "object"), ("?n", "t4")], ["and", ["pa", "?o"], ["pa", "?n"]],
                           ["and", ["not", ["pa", "?o"]], ["pb", "?n", "?o"], ["increase", ["fa", "?o"], "1"]])],
                         const=True, types=task["types"], extra_predicates=[["pa", "?a", "-", task["required"]]])
    req2 = task.get("required2", task["required"])
    text = text.replace("(:predicates", f"(:predicates (pb ?a - {task['required']} ?b - {req2})")
    text = text.replace("(:functions", f"(:functions (fa ?a - {task['required']}) (fb ?a - {task['required']} ?b - {req2})")
    tv = z3.Int("objtype")
    parent = {"t4": "t3", "t3": "t1", "t1": "object", "t2": "object", "object": None}

    def below(x, y):
        while x is not None:
            if x == y:
                return True
            x = parent[x]
        return False

    def fn(ctx: Ctx):
        if not ctx.assume(z3.And(tv >= 0, tv < len(TVOC))):
            return None
        if task["what"].endswith("_over_constant"):
            # the argument is a domain CONSTANT whose declared type is the symbolic token (decided here, one path per type)
            tn = FinStr(tv, TVOC).concretize()
            dom = lib.parse_domain(text.replace("(:constants k - t1", f"(:constants k - t1 kc - {tn}"))
            pp = ProblemParser.__new__(ProblemParser)
            pp.domain = dom
            pp.logger = logging.getLogger("verif")
            pp.problem = Problem(dom)
            pp.problem.objects = pp.parse_objects(["ob", "-", "object"])
            try:
                if task["what"] == "fact_over_constant":
                    pp.parse_grounded_predicate(["pa", "kc"], dom.predicates["pa"])
                else:
                    pp.parse_grounded_numeric_fluent(["fa", "kc"])
                return tn, True
            except (AssertionError, ValueError, KeyError):
                return tn, False
        dom = lib.parse_domain(text)
        pp = ProblemParser.__new__(ProblemParser)
        pp.domain = dom
        pp.logger = logging.getLogger("verif")
        pp.problem = Problem(dom)
        t = FinStr(tv, TVOC)
        pp.problem.objects = pp.parse_objects(["ob", "-", t])
        if task.get("after_grounding"):
            from pddl_plus_parser.models import Operator, PDDLObject
            helpers = {"x0": PDDLObject("x0", dom.types["object"]), "x4": PDDLObject("x4", dom.types["t4"])}
            try:
                Operator(dom.actions["gr"], dom, ["x0", "x4"], helpers).ground()
            except Exception:  # noqa -- what the library makes of `gr` is not judged here
                pass
        try:
            if task["what"] == "fact":
                pp.parse_grounded_predicate(["pa", "ob"], dom.predicates["pa"])
            elif task["what"] == "fact_repeated_object":
                pp.parse_grounded_predicate(["pb", "ob", "ob"], dom.predicates["pb"])
            elif task["what"] == "fluent_repeated_object":
                pp.parse_grounded_numeric_fluent(["fb", "ob", "ob"])
            elif task["what"] == "trajectory_fluent_repeated_object":
                from pddl_plus_parser.lisp_parsers import TrajectoryParser
                TrajectoryParser(dom, pp.problem).parse_grounded_numeric_fluent(["fb", "ob", "ob"])
            else:
                pp.parse_grounded_numeric_fluent(["fa", "ob"])
            accepted = True
        except (AssertionError, ValueError, KeyError):
            accepted = False
        return t.concretize(), accepted

    def on_path(ctx: Ctx, pr):
        if pr.kind == "exc":
            res["outcome"], res["detail"] = "error", f"{type(pr.value).__name__}: {pr.value}"
            return
        if pr.value is None:
            return
        tname, accepted = pr.value
        res["obligations"] += 1
        want = below(tname, task["required"]) and below(tname, req2)
        if accepted != want and res["outcome"] != "violation":
            res["outcome"] = "violation"
            res["cex"] = {"what": f"{task['what']} over an object of type {tname} where {task['required']}"
                                  f"{' and ' + req2 if 'repeated' in task['what'] else ''} is required: accepted={accepted}, subtype={want}",
                          "types_tokens": task["types"], "object_type": tname, "required": task["required"], "required2": req2,
                          "kind": task["what"]}

    try:
        explore(fn, on_path, stats=stats, timeout_ms=10000)
    except (Inconclusive, Unsupported, PathLimit) as e:
        res["outcome"], res["detail"] = "inconclusive", f"{type(e).__name__}: {e}"
    except Exception as e:  # noqa
        import traceback
        res["outcome"], res["detail"] = "error", f"{type(e).__name__}: {e} {traceback.format_exc()[-800:]}"
    res["paths"] = stats.paths
    res["stats"] = stats.as_dict()
    return res


def accept_tasks():
    orders = [["t1", "t2", "-", "object", "t3", "-", "t1", "t4", "-", "t3"], CHAIN_TYPES,
              ["t3", "-", "t1", "t4", "-", "t3", "t1", "t2"], ["t4", "-", "t3", "t1", "-", "object", "t3", "-", "t1", "t2"]]
    tasks = []
    for types in orders:
        for req in ("t1", "t3", "t4", "t2", "object"):
            for what in ("fact", "fluent"):
                tasks.append({"kind": "accept", "types": types, "required": req, "what": what})
                tasks.append({"kind": "accept", "types": types, "required": req, "what": what, "after_grounding": True})
                tasks.append({"kind": "accept", "types": types, "required": req, "what": what + "_over_constant"})
        # the same object in two positions that require different types: accepted exactly when its type fits both
        for req, req2 in (("t1", "t3"), ("t3", "t1"), ("t4", "t1"), ("t1", "object"), ("object", "t3"), ("t2", "t1")):
            for what in ("fact_repeated_object", "fluent_repeated_object", "trajectory_fluent_repeated_object"):
                tasks.append({"kind": "accept", "types": types, "required": req, "required2": req2, "what": what})
    return tasks


def skeletons(tier):
    sk = [[(1, True)], [(1, True), (1, True)], [(2, True), (1, True)], [(1, True), (2, True)], [(1, True), (1, True), (1, False)],
          [(1, True), (1, True), (1, True)]]
    if tier == "thorough":
        sk += [[(2, True), (1, True), (1, True)], [(1, True), (2, True), (1, True)], [(2, True), (2, True)],
               [(1, True), (1, True), (1, True), (1, False)], [(1, True), (1, True), (1, True), (1, True)]]
    out = []
    for s in sk:
        nvars = sum(n for n, _ in s) + sum(1 for _, h in s if h)
        if nvars >= 5:
            for c0 in range(len(VOC) - 1):
                for p0 in range(len(VOC)):
                    if c0 != p0:
                        out.append({"kind": "types", "skeleton": s, "fix": [c0, p0]})
        else:
            out.append({"kind": "types", "skeleton": s})
    return out


def _dispatch(t):
    if t["kind"] == "types":
        return run_types_task(t)
    if t["kind"] == "accept":
        return run_accept_task(t)
    return callsym.run_task(t)


def twin():
    """a deliberately wrong closure ('b - a  a - c' but claiming b is NOT below c) must be refuted concretely"""
    return replay_types(["a", "-", "b", "b", "-", "c"]) is not None and \
        len([1 for x in [0]]) == 1


def main(tier):
    rep = runner.Report("C06", tier, "other")
    tasks = skeletons(tier) + range_tasks(tier) + accept_tasks()
    results = runner.pmap(_dispatch, tasks)
    from collections import Counter
    c = Counter()
    agg = Counter()
    paths = obligations = nontrivial = 0
    solver_s = 0.0
    samples = []
    for t, r in zip(tasks, results):
        c[r["outcome"]] += 1
        paths += r.get("paths", 0)
        obligations += r.get("obligations", 0)
        st = r.get("stats") or {}
        for k in runner.STAT_KEYS:
            agg[k] += st.get(k, 0)
        solver_s += st.get("solver_seconds", 0.0)
        if r.get("paths", 0) >= 2:
            nontrivial += 1
        label = t.get("label") or json.dumps({k: v for k, v in t.items() if k in ("kind", "skeleton", "types", "required", "what")})
        if r["outcome"] == "violation":
            if t["kind"] == "range":
                cx = r["cex"][0]
                rep.violation(f"{label} args={t['args']}: {cx['what']}",
                              {"property": "C06", "kind": "callsym", "task": t, "atoms_true": cx["atoms_true"], "fluents": cx["fluents"]})
            else:
                rep.violation(f"{label}: {r['cex']['what']} {r['cex'].get('types_tokens')}",
                              {"property": "C06", "kind": "c06", "task": t, "cex": r["cex"]})
        elif r["outcome"] == "inconclusive":
            rep.inconclusive.append(f"{label}: {r.get('detail')}")
        elif r["outcome"] in ("error",):
            rep.errors.append(f"{label}: {r.get('detail')}")
        elif r["outcome"] in ("out_of_bound", "vacuous", "oracle_unsupported"):
            rep.errors.append(f"{label}: unexpected {r['outcome']} {r.get('detail')}")
        elif len(samples) < 4 and r.get("paths", 0) >= 5:
            samples.append({"task": label, "paths": r["paths"], "obligations": r.get("obligations")})
    q = dict(agg)
    q["solver_seconds"] = round(solver_s, 2)
    rep.coverage.update({
        "evaluations": len(tasks), "distinct_nontrivial": nontrivial,
        "rule": "one evaluation = one declaration skeleton (all name aliasings explored by forks inside parse_types), one "
                "quantified program x argument on the children-first chain, or one (declaration order, required type, fact|fluent) "
                "with the object's type symbolic; non-trivial = >=2 feasible paths",
        "samples": samples or [{"note": "none"}], "outcomes": dict(c), "paths": paths, "obligations": obligations, "queries": q,
        "exhaustive": True,
        "bounds": {"skeletons": sorted({json.dumps(t["skeleton"]) for t in skeletons(tier)}), "vocabulary": VOC,
                   "consumers_ranging": "forall conditions/effects over t1/t3 on the chain t4<t3<t1 declared children-first, objects "
                                        "o1-t1 o3-t3 o4-t4, with/without constant k; states symbolic (C02/C03 machinery)",
                   "consumers_checking": "4 declaration orders x (5 required types x fact/fluent + 6 pairs of required types x fact/fluent over the same object twice), object type symbolic over "
                                         "{t1,t2,t3,t4,object}",
                   "outside": "forests deeper than 3 declaration groups (quick) / 4 (thorough); more than 5 names"},
        "functions_executed_symbolically": ["DomainParser.parse_types", "PDDLType.is_sub_type/is_sub_type_aux", "create_type_hierarchy_graph",
                                            "ProblemParser.parse_objects/_validate_object_types/parse_grounded_predicate/"
                                            "parse_grounded_numeric_fluent", "Operator.is_applicable/apply (forall ranges)"],
        "note": "the symbolic dimension of (a) and (c) is finite-domain (names), decided by z3 under the well-formedness assumptions",
    })
    rep.assumptions += ["left-hand sides unique, declarations acyclic", "ref closure (reflexive-transitive, 'object' root)"]
    return rep.finish(total=len(tasks))


def replay(payload, path):
    cx = payload.get("cex", {})
    if payload["task"]["kind"] == "types":
        bad = replay_types(cx["types_tokens"])
        print("declaration:", " ".join(cx["types_tokens"]), "->", bad)
    else:
        r = run_accept_task(payload["task"])
        bad = r["outcome"] == "violation"
        print(r.get("cex"))
    if bad:
        print(f"VIOLATION property=C06 replay={path}")
        return 1
    print("does not reproduce")
    return 0
