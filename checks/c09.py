"""C09 -- exporting a problem and parsing it back preserves it.

Bounded symbolic execution of the real ProblemExporter.export_problem -> scratch file -> PDDLTokenizer (file mode) ->
ProblemParser.parse_problem pipeline on a problem whose initial facts (membership) and fluent values are symbolic
(numbers travel through the text as placeholder tokens; float(token) in the problem parser maps a token back to its
value).  Objects, goal and the set of fluents present are enumerated, including the empty sections.

Per path: same problem name, same objects with the same types, same initial facts, same fluents (same argument
lists) with -- decided by z3 under the path condition -- the same values, same goal literals, same numeric goal
conditions.
"""
import itertools
import json
import os
import random
import traceback
from collections import Counter
from pathlib import Path

import z3

from gen import programs as G
from ref import sexpr
from symx import core
from symx.core import Ctx, Stats, explore, Inconclusive, Unsupported, PathLimit, SymBool, SymReal
from . import lib, runner, callsym

ATOM_POOL = ["(p o1)", "(p o3)", "(p k)", "(q o1 o2)", "(q o2 o2)", "(q o3 k)", "(r)", "(s u1)", "(m o3 o3)", "(m o3 o1)", "(ob u1)", "(un o3)", "(ob k)"]
# ... (w4 o2 o2 o1 o1): two different objects, each repeated, the first one sorting after the second;
# (w3 o1 o2 o2): a repeated argument AFTER another argument (known finding F2: the position of a repeated argument is not kept)
FLUENT_POOL = ["(f o1)", "(g)", "(h o2 o1)", "(h o1 o1)", "(f k)", "(f o3)", "(w3 o1 o1 o1)", "(w3 o1 o2 o3)", "(w4 o2 o2 o1 o1)",
               "(w3 o1 o2 o2)"]
GOALS = [
    [],
    [["p", "o1"]],
    [["q", "o1", "o2"], ["r"], ["p", "k"]],
    [[">=", ["f", "o1"], "2"]],
    [["p", "o3"], ["=", ["g"], "0.5"], ["<=", ["+", ["f", "o1"], ["g"]], "10"]],
    [["q", "o2", "o2"], [">", ["h", "o1", "o1"], ["-", ["f", "k"], "1"]]],
    # the constant on the left of a comparison; a comparison of two expressions; a constant-only side
    [["<=", "2.5", ["f", "o1"]], [">", "10", ["+", ["f", "o1"], ["g"]]]],
    [["<", ["*", "2", ["g"]], ["-", ["f", "o1"], ["g"]]], [">=", ["-", "1", "0.5"], ["g"]], ["p", "o1"]],
    # literals of one predicate that are not next to each other, a predicate three times
    [["p", "o1"], ["q", "o1", "o2"], ["p", "o3"], ["r"], ["q", "o2", "o2"], ["p", "k"]],
    # round 20: constants with five and more significant digits, within the printer's four decimals
    [[">=", ["f", "o1"], "12.345"], ["<", ["g"], "1234.5"], ["<=", ["-", ["f", "o1"], "0.0625"], "-100.125"]],
]
OBJECT_SETS = [dict(G.OBJECTS), {"o1": "t1", "o2": "t1", "o3": "t3", "u1": "t2", "u2": "t2", "o4": "t3"},
               # objects of the root type declared before / between objects of proper types (a bare name in a typed list
               # takes the type that follows it)
               {"x1": "object", "o1": "t1", "o2": "t1", "o3": "t3", "u1": "t2"},
               {"o1": "t1", "o2": "t1", "x1": "object", "o3": "t3", "x2": "object", "u1": "t2"},
               # a problem that lists a name the domain also declares as a constant (with the constant's type / a subtype)
               {"o1": "t1", "k": "t1", "o2": "t1", "o3": "t3", "u1": "t2"},
               {"k": "t3", "o1": "t1", "o2": "t1", "o3": "t3", "u1": "t2"}]
DOMAIN_NAME = "uni-dom2"  # long enough to have proper prefixes, suffixes and extensions
# two more predicates than the universe: one over the root type, one with an untyped parameter (any declared object conforms,
# an undeclared name does not)
DOMAIN_TEXT = G.domain_text([("act", [], ["and"], ["and"])], const=True, name=DOMAIN_NAME,
                            extra_predicates=[["ob", "?o", "-", "object"], ["un", "?a"]]).replace(
    "(:functions", "(:functions (w4 ?a ?b ?c ?d - t1)")
_N = [0]



AWKWARD = (0.123456789, 1234.56789012, -0.000123456789)  # added to a counterexample's values when it does not reproduce as is:
# a disagreement that needs many significant digits (number printing) is real all the same, and is reported with the
# values that reproduce it

def _scratch():
    _N[0] += 1
    return Path(lib.tmpdir()) / f"c09_{os.getpid()}_{_N[0]}.pddl"


def _vars(task):
    return ({a: z3.Bool("A" + a) for a in task["atoms"]}, {f: z3.Real("X" + f) for f in task["fluents"]})


def build_problem(task, world, atoms, fluents):
    """the library's own Problem: objects by ProblemParser.parse_objects (in World), facts/fluents by its grounding methods,
    goal by ProblemParser.parse_goal_state"""
    state, _ = world.make_state(atoms, fluents, is_init=True)
    pb = world.problem
    pb.name = task.get("name", "pu")
    pb.initial_state_predicates = state.state_predicates
    pb.initial_state_fluents = state.state_fluents
    world.pp.parse_goal_state(["and"] + [g for g in task["goal"]])
    return pb


def round_trip(task, world, pb, symbolic):
    from pddl_plus_parser.exporters import ProblemExporter
    from pddl_plus_parser.lisp_parsers import ProblemParser
    import pddl_plus_parser.lisp_parsers.problem_parser as ppm
    path = _scratch()
    try:
        ProblemExporter().export_problem(pb, path)
        if symbolic:
            ppm.float = core.sym_float
        try:
            return ProblemParser(path, world.domain).parse_problem()
        finally:
            if symbolic:
                del ppm.float
    finally:
        try:
            os.unlink(path)
        except OSError:
            pass


def _val(v):
    return v.e if isinstance(v, SymReal) else core.exact(v)


def facts_of(preds):
    out = Counter()
    for ps in preds.values():
        for p in ps:
            out[lib.norm(p.untyped_representation)] += 1
    return out


def compare(pb, back, problems, obligations):
    if back.name != pb.name:
        problems.append(f"name {back.name!r} for {pb.name!r}")
    oa = {n: str(o.type.name) for n, o in pb.objects.items()}
    ob = {n: str(o.type.name) for n, o in back.objects.items()}
    if oa != ob:
        problems.append(f"objects differ: exported {oa} parsed {ob}")
    fa, fb = facts_of(pb.initial_state_predicates), facts_of(back.initial_state_predicates)
    if fa != fb:
        problems.append(f"initial facts differ: only exported {sorted((fa - fb).elements())} only parsed {sorted((fb - fa).elements())}")
    xa = {lib.fluent_name(f): f.value for f in pb.initial_state_fluents.values()}
    xb = {lib.fluent_name(f): f.value for f in back.initial_state_fluents.values()}
    if len(xa) != len(pb.initial_state_fluents) or len(xb) != len(back.initial_state_fluents):
        problems.append("two fluents print alike")
    if set(xa) != set(xb):
        problems.append(f"fluents differ: only exported {sorted(set(xa) - set(xb))} only parsed {sorted(set(xb) - set(xa))}")
    else:
        for k in xa:
            obligations.append((f"value of {k}", _val(xa[k]) == _val(xb[k])))
    ga = Counter(lib.norm(p.untyped_representation) for p in pb.goal_state_predicates)
    gb = Counter(lib.norm(p.untyped_representation) for p in back.goal_state_predicates)
    if ga != gb:
        problems.append(f"goal literals differ: exported {sorted(ga.elements())} parsed {sorted(gb.elements())}")
    na = Counter(lib.norm(t.to_pddl()) for t in pb.goal_state_fluents)
    nb = Counter(lib.norm(t.to_pddl()) for t in back.goal_state_fluents)
    if na != nb:
        problems.append(f"numeric goal conditions differ: exported {sorted(na.elements())} parsed {sorted(nb.elements())}")


def _norm_num(text):
    """tokens of a printed condition with numerals normalised (2 == 2.0)"""
    out = []
    for t in sexpr.tokens(text) if hasattr(sexpr, "tokens") else text.replace("(", " ( ").replace(")", " ) ").split():
        try:
            out.append(repr(float(t)))
        except ValueError:
            out.append(t)
    return " ".join(out)


def compare_spec(task, truth, values, back, problems, obligations):
    """the parsed-back problem against the task's own description (independent of the library's Problem object)"""
    if back.name != task.get("name", "pu"):
        problems.append(f"name {back.name!r} for {task.get('name', 'pu')!r}")
    ob = {n: str(o.type.name) for n, o in back.objects.items()}
    if ob != dict(task["objects"]):
        problems.append(f"objects differ from the declared ones: parsed {ob}")
    want = Counter(lib.norm(a) for a, v in truth.items() if v)
    fb = facts_of(back.initial_state_predicates)
    if fb != want:
        problems.append(f"initial facts differ from the declared ones: missing {sorted((want - fb).elements())} extra {sorted((fb - want).elements())}")
    xb = {lib.fluent_name(f): f.value for f in back.initial_state_fluents.values()}
    wantf = {lib.norm(f): v for f, v in values.items()}
    if set(xb) != set(wantf):
        problems.append(f"fluents differ from the declared ones: missing {sorted(set(wantf) - set(xb))} extra {sorted(set(xb) - set(wantf))}")
    else:
        for k in xb:
            obligations.append((f"value of {k} vs the declared value", _val(xb[k]) == _val(wantf[k])))
    lits = Counter(lib.norm(sexpr.render(g)) for g in task["goal"] if g[0] not in ("=", "<=", ">=", "<", ">"))
    gb = Counter(lib.norm(p.untyped_representation) for p in back.goal_state_predicates)
    if gb != lits:
        problems.append(f"goal literals differ from the declared ones: parsed {sorted(gb.elements())} declared {sorted(lits.elements())}")
    nums = Counter(_norm_num(sexpr.render(g)) for g in task["goal"] if g[0] in ("=", "<=", ">=", "<", ">"))
    nb = Counter(_norm_num(t.to_pddl()) for t in back.goal_state_fluents)
    if nb != nums:
        problems.append(f"numeric goal conditions differ from the declared ones: parsed {sorted(nb.elements())} declared {sorted(nums.elements())}")
    # the constants of the numeric goals read from the tree's own leaves (not through the library's printer, which a
    # change of the number format would carry along on both sides)
    want_c = sorted(x for g in task["goal"] if g[0] in ("=", "<=", ">=", "<", ">") for x in _numerals(g))
    got_c = _leaf_constants(back.goal_state_fluents)
    if got_c is not None and got_c != want_c and not any("numeric goal conditions differ" in p for p in problems):
        problems.append(f"constants of the numeric goal conditions differ from the declared ones: parsed {got_c} declared {want_c}")


def _numerals(x):
    """numerals among the operands of [head, operand, ...] (argument names of fluents are never numerals here)"""
    if isinstance(x, list):
        return [v for y in x[1:] for v in _numerals(y)]
    return _num_tok(x)


def _num_tok(tok):
    try:
        return [float(tok)]
    except ValueError:
        return []


def _leaf_constants(trees):
    from pddl_plus_parser.models import PDDLFunction
    out = []
    for t in trees:
        for node in [t.root, *t.root.descendants]:
            if node.is_leaf and not isinstance(node.value, PDDLFunction):
                if isinstance(node.value, SymReal):
                    return None
                try:
                    out.append(float(node.value))
                except (TypeError, ValueError):
                    return None
    return sorted(out)


PROBE_VALUES = [1.25e-05, 4e-08, 123456789.125, -0.000123456789, 1e+16, 0.1 + 0.2, -2.5e-07, 1234567.0]


def run_probe(task):
    """numbers whose TEXT is unusual (exponent notation, many digits): the text of a number is outside the symbolic model
    (values travel as placeholder tokens), so these are plain concrete round trips, reported as such"""
    res = {"task": task, "outcome": "held", "paths": 1, "obligations": 1, "cex": None, "reached": 1}
    atoms = {a: True for a in task["atoms"]}
    for shift in range(len(PROBE_VALUES)):
        fls = {f: PROBE_VALUES[(i + shift) % len(PROBE_VALUES)] for i, f in enumerate(task["fluents"])}
        rp = concrete_round_trip(task, atoms, fls)
        if rp.get("disagree"):
            res["outcome"] = "violation"
            res["cex"] = {"what": "; ".join(rp.get("problems") or [str(rp.get("observed"))])[:400], "atoms": atoms, "fluents": fls,
                          "replay": callsym._jsonable(rp), "all_problems": list(rp.get("problems") or [])}
            break
    return res


def repo_problem_pairs():
    """every problem file under /repo/tests with a domain file of the name it asks for (same directory preferred)"""
    import glob
    import re as real_re
    doms, probs = {}, []
    for p in sorted(glob.glob(os.path.join(lib.REPO, "tests", "**", "*.pddl"), recursive=True)):
        try:
            txt = open(p, encoding="utf-8").read().lower()
        except Exception:  # noqa
            continue
        m = real_re.search(r"\(define\s*\(domain\s+([^\s()]+)", txt)
        if m:
            doms.setdefault(m.group(1), []).append(p)
        elif "(define" in txt and "(problem" in txt:
            m = real_re.search(r"\(:domain\s+([^\s()]+)", txt)
            if m:
                probs.append((p, m.group(1)))
    out = []
    for p, dn in probs:
        cands = sorted(doms.get(dn, []), key=lambda d: (os.path.dirname(d) != os.path.dirname(p), d))
        if cands:
            out.append({"repo_problem": p, "domains": cands})
    return out


def run_repo_problem(task):
    """a shipped problem file: parse, export to a file, parse again, compare -- concrete (nothing symbolic: the file is what it is)"""
    from pddl_plus_parser.exporters import ProblemExporter
    from pddl_plus_parser.lisp_parsers import DomainParser, ProblemParser
    res = {"task": task, "outcome": "skipped", "paths": 1, "obligations": 0, "cex": None, "reached": 1}
    for d in task["domains"]:
        try:
            domain = DomainParser(Path(d)).parse_domain()
            pb = ProblemParser(Path(task["repo_problem"]), domain).parse_problem()
        except Exception:  # noqa -- not this property's subject (C01 / C05)
            continue
        path = _scratch()
        try:
            ProblemExporter().export_problem(pb, path)
            back = ProblemParser(path, domain).parse_problem()
            problems, obligations = [], []
            compare(pb, back, problems, obligations)
            problems += [d_ for d_, o in obligations if not z3.is_true(z3.simplify(o))]
        except Exception as e:  # noqa
            problems = [f"export / re-parse raised {type(e).__name__}: {e}"]
        finally:
            if path.exists():
                os.unlink(path)
        res["obligations"] = 1
        res["outcome"] = "violation" if problems else "held"
        if problems:
            res["cex"] = {"what": "; ".join(problems)[:500], "all_problems": problems, "domain": d, "atoms": {}, "fluents": {}}
        return res
    return res


def run_task(task):
    if task.get("repo_problem"):
        return run_repo_problem(task)
    if task.get("probe"):
        return run_probe(task)
    res = {"task": task, "outcome": "held", "paths": 0, "obligations": 0, "cex": None, "reached": 0}
    stats = Stats()
    try:
        text = DOMAIN_TEXT
        va, xf = _vars(task)

        def fn(ctx: Ctx):
            world = lib.World(text, task["objects"])
            pb = build_problem(task, world, {a: SymBool(v) for a, v in va.items()}, {f: SymReal(v) for f, v in xf.items()})
            truth = {a: bool(SymBool(v)) for a, v in va.items()}  # decided when the state was built: no new fork
            return pb, round_trip(task, world, pb, symbolic=True), truth

        def on_path(ctx: Ctx, pr):
            if pr.kind == "exc":
                _cex(ctx, res, task, va, xf, f"raised {type(pr.value).__name__}: {pr.value}", z3.BoolVal(True))
                return
            res["reached"] += 1
            pb, back, truth = pr.value
            problems, obligations = [], []
            compare(pb, back, problems, obligations)
            compare_spec(task, truth, {f: SymReal(v) for f, v in xf.items()}, back, problems, obligations)
            res["obligations"] += len(obligations) + 12
            if problems:
                _cex(ctx, res, task, va, xf, "; ".join(problems[:3]), z3.BoolVal(True), problems)
                return
            post = z3.And([z3.BoolVal(True)] + [o for _, o in obligations])
            r = ctx.check(z3.Not(post), expect_unsat=True)
            if r == "unknown":
                raise Inconclusive("obligation")
            if r == "sat":
                bad = [d for d, o in obligations if ctx.check(z3.Not(o)) == "sat"]
                _cex(ctx, res, task, va, xf, "values differ after the round trip: " + "; ".join(bad[:3]), z3.Not(post))

        explore(fn, on_path, stats=stats, max_paths=task.get("max_paths", 2000), timeout_ms=5000, time_budget_s=core.task_budget())
        if res["reached"] == 0 and res["outcome"] == "held":
            res["outcome"] = "vacuous"
    except Inconclusive as e:
        res["outcome"], res["detail"] = "inconclusive", str(e)
    except PathLimit as e:
        if res["outcome"] != "violation":
            res["outcome"], res["detail"] = "out_of_bound", str(e)
    except Unsupported as e:
        res["outcome"], res["detail"] = "inconclusive", f"unsupported: {e}"
    except Exception as e:  # noqa
        res["outcome"], res["detail"] = "error", f"{type(e).__name__}: {e} {traceback.format_exc()[-900:]}"
    res["paths"] = stats.paths
    res["stats"] = stats.as_dict()
    return res


def concrete_round_trip(task, atoms, fls):
    """the unshimmed pipeline with plain floats (real repr / float)"""
    text = DOMAIN_TEXT
    world = lib.World(text, task["objects"])
    out = {}
    try:
        pb = build_problem(task, world, dict(atoms), dict(fls))
        back = round_trip(task, world, pb, symbolic=False)
    except Exception as e:  # noqa
        out["observed"] = f"{type(e).__name__}: {e}"
        out["disagree"] = True
        return out
    problems, obligations = [], []
    compare(pb, back, problems, obligations)
    compare_spec(task, atoms, fls, back, problems, obligations)
    for d, o in obligations:
        if not z3.is_true(z3.simplify(o)):
            problems.append(d + " differs")
    out["problems"] = problems[:6]
    out["disagree"] = bool(problems)
    return out


def _cex(ctx, res, task, va, xf, desc, neg, problems=None):
    if res["outcome"] == "violation" and not res["cex"].get("only_known_shape"):
        return
    model = callsym.nice_model(ctx, neg, list(xf.values()))
    if model is None:
        res["unconfirmed"] = res.get("unconfirmed", 0) + 1
        return
    atoms = {a: bool(z3.is_true(model.eval(v, model_completion=True))) for a, v in va.items()}
    fls = {f: lib.to_float(core.zval(model, v)) for f, v in xf.items()}
    rp = concrete_round_trip(task, atoms, fls)
    if not rp.get("disagree"):
        for delta in AWKWARD:
            shifted = {k_: v_ + delta for k_, v_ in fls.items()}
            rp2 = concrete_round_trip(task, atoms, shifted)
            if rp2.get("disagree"):
                rp, fls = rp2, shifted
                break
    if rp.get("disagree"):
        res["outcome"] = "violation"
        res["cex"] = {"what": desc, "atoms": atoms, "fluents": fls, "replay": callsym._jsonable(rp),
                      "all_problems": list(problems or [desc]) + [p for p in rp.get("problems", []) if p not in (problems or [])]}
    else:
        res["unconfirmed"] = res.get("unconfirmed", 0) + 1
        res.setdefault("unconfirmed_sample", {"what": desc, "atoms": atoms, "fluents": fls})


def tasks_for(tier, seed):
    rng = random.Random(seed * 131 + 9)
    tasks = []
    n = 150 if tier == "quick" else 6000
    k_atoms = 6 if tier == "quick" else 8
    # the degenerate members first: nothing in :init, nothing in the goal
    # a problem that declares no object at all: every individual is the domain constant (the :objects section stays empty)
    tasks.append({"atoms": ["(p k)", "(ob k)", "(r)"], "fluents": ["(f k)", "(g)"], "goal": [["p", "k"], [">=", ["f", "k"], "1"]], "objects": {}})
    tasks.append({"atoms": ["(r)"], "fluents": [], "goal": [], "objects": {}})
    tasks.append({"atoms": [], "fluents": [], "goal": [], "objects": OBJECT_SETS[0]})
    tasks.append({"atoms": ["(r)"], "fluents": [], "goal": [], "objects": OBJECT_SETS[0]})
    tasks.append({"atoms": [], "fluents": ["(g)"], "goal": GOALS[3], "objects": OBJECT_SETS[0]})
    for gi, goal in enumerate(GOALS):
        tasks.append({"atoms": ATOM_POOL[:k_atoms], "fluents": FLUENT_POOL[: 2 + gi % 4], "goal": goal,
                      "objects": OBJECT_SETS[gi % len(OBJECT_SETS)]})
    for k in (2, 4):
        tasks.append({"atoms": ATOM_POOL[:2], "fluents": FLUENT_POOL[:k], "goal": GOALS[1], "objects": OBJECT_SETS[0], "probe": True})
    while len(tasks) < n:
        atoms = rng.sample(ATOM_POOL, rng.randint(1, k_atoms))
        fluents = rng.sample(FLUENT_POOL, rng.randint(0, 4))
        tasks.append({"atoms": atoms, "fluents": fluents, "goal": rng.choice(GOALS), "objects": rng.choice(OBJECT_SETS),
                      "name": rng.choice(["pu", "p-1", "problem_2"])})
    return tasks


def twin():
    """a deliberately damaged export (one value altered in the text) must be noticed"""
    from pddl_plus_parser.exporters import ProblemExporter
    from pddl_plus_parser.lisp_parsers import ProblemParser
    task = {"atoms": ["(p o1)"], "fluents": ["(g)"], "goal": GOALS[1], "objects": OBJECT_SETS[0]}
    text = DOMAIN_TEXT
    world = lib.World(text, task["objects"])
    pb = build_problem(task, world, {"(p o1)": True}, {"(g)": 2.5})
    path = _scratch()
    path.write_text(ProblemExporter().extract_problem(pb).replace("2.5", "2.75"))
    back = ProblemParser(path, world.domain).parse_problem()
    os.unlink(path)
    problems, obligations = [], []
    compare(pb, back, problems, obligations)
    return any(not z3.is_true(z3.simplify(o)) for _, o in obligations)


def main(tier):
    rep = runner.Report("C09", tier, "other")
    tasks = tasks_for(tier, runner.seed())
    repo_tasks = repo_problem_pairs()
    tasks += repo_tasks
    results = runner.pmap(run_task, tasks)
    c, agg = Counter(), Counter()
    paths = obligations = nontrivial = unconfirmed = 0
    solver_s = 0.0
    samples = []
    known = runner.load_known("C09")
    for t, r in zip(tasks, results):
        c[r["outcome"]] += 1
        paths += r["paths"]
        obligations += r["obligations"]
        unconfirmed += r.get("unconfirmed", 0)
        st = r.get("stats") or {}
        for k in runner.STAT_KEYS:
            agg[k] += st.get(k, 0)
        solver_s += st.get("solver_seconds", 0.0)
        if r["paths"] >= 2:
            nontrivial += 1
        if t.get("repo_problem"):
            label = json.dumps({"repository problem file": os.path.relpath(t["repo_problem"], lib.REPO)})
        else:
            label = json.dumps({"atoms": t["atoms"], "fluents": t["fluents"], "goal": [sexpr.render(g) for g in t["goal"]],
                                "objects": t["objects"], "name": t.get("name", "pu")})
        if r["outcome"] == "violation":
            cx = r["cex"]
            detail = f"{label}: {cx['what']} with the initial state {[a for a, v in cx['atoms'].items() if v]} {cx['fluents']}"
            # attributed to a listed finding only if EVERY difference observed on that path has the finding's shape
            kfs = runner.attribute_problems(known, cx.get("all_problems") or [])
            if kfs is not None:
                for kf in kfs:
                    rep.known(kf, 1)
            else:
                rep.violation(detail, {"property": "C09", "kind": "c09", "task": t, "cex": cx})
        elif r["outcome"] == "inconclusive":
            rep.inconclusive.append(f"{label}: {r.get('detail')}")
        elif r["outcome"] == "error":
            rep.errors.append(f"{label}: {r.get('detail')}")
        elif len(samples) < 3 and r["paths"] >= 8 and r["outcome"] == "held":
            samples.append({"task": json.loads(label), "paths": r["paths"], "obligations": r["obligations"],
                            "obligation_form": "pc /\\ not(forall fluents: parsed value == exported value) unsat; name, objects, "
                                               "facts, fluent argument lists, goal literals and numeric goals compared per path"})
    repo_out = Counter(r["outcome"] for t, r in zip(tasks, results) if t.get("repo_problem"))
    rep.coverage["repository_problem_files"] = {"files": len(repo_tasks), "outcomes": dict(repo_out),
                                                "what": "every problem file under tests/ that parses with a domain file of the name it asks for: "
                                                        "parse, export to a file, parse again, compare (concrete)"}
    if not twin():
        rep.twins_failed.append("vacuity twin: an altered value in the text was not noticed")
    q = dict(agg)
    q["solver_seconds"] = round(solver_s, 2)
    rep.coverage.update({
        "evaluations": len(tasks), "distinct_nontrivial": nontrivial,
        "rule": "one evaluation = one (atom pool, fluent set, goal, object table, name) explored over all feasible paths of export -> "
                "file -> parse with the membership of every pool atom and every fluent value symbolic; non-trivial = >=2 paths",
        "samples": samples or [{"note": "none"}], "outcomes": dict(c), "paths": paths, "obligations": obligations, "queries": q,
        "unconfirmed_counterexamples": unconfirmed, "vacuity_twin_refuted": not rep.twins_failed, "exhaustive": False,
        "bounds": {"init": "<=5/7 pool atoms (unary, binary, repeated argument, zero-arity, subtype object, constant argument, second "
                           "type) with symbolic membership; 0-4 fluents (unary, zero-arity, two arguments, repeated argument, "
                           "constant argument) with symbolic values", "goal": "6 goals: empty, literals, numeric comparisons with "
                           "exactly representable constants, mixed", "objects": "2 object tables (typed, subtypes)",
                   "outside": "the text of numbers (repr/float of doubles: placeholder tokens; replayed with real floats), numeric goal "
                              "constants beyond the exporter's decimals (C12's print obligation), problem files shipped with the "
                              "repository (concrete), fluents with >=3 arguments of which non-adjacent ones repeat (C01-F1's root cause)"},
        "functions_executed_symbolically": ["ProblemExporter.export_problem/extract_problem/write_objects/write_initial_state/"
                                            "write_goal_state", "PDDLFunction.state_representation, GroundedPredicate.untyped_representation, "
                                            "NumericalExpressionTree.to_pddl", "PDDLTokenizer (file mode) .parse",
                                            "ProblemParser.parse_problem/parse_objects/parse_initial_state/parse_state_component/"
                                            "parse_grounded_predicate/parse_grounded_numeric_fluent/parse_goal_state"],
        "shims": ["str(number) -> placeholder token", "float(token) in problem_parser -> the value behind the token"],
    })
    rep.assumptions += ["repr(float) is injective on values and float(repr(x)) == x (numbers travel as placeholder tokens)",
                        "two references: the Problem object that was exported, and the task's own description of it (declared "
                        "objects, facts true on the path, fluent value variables, goal trees)"]
    return rep.finish(total=len(tasks))


def replay(payload, path):
    cx = payload["cex"]
    if payload["task"].get("repo_problem"):
        r = run_repo_problem(payload["task"])
        print(r["outcome"], r.get("cex"))
        if r["outcome"] == "violation":
            print(f"VIOLATION property=C09 replay={path}")
            return 1
        print("does not reproduce")
        return 0
    rp = concrete_round_trip(payload["task"], cx["atoms"], cx["fluents"])
    print(json.dumps(callsym._jsonable(rp), indent=1))
    if rp["disagree"]:
        print(f"VIOLATION property=C09 replay={path}")
        return 1
    print("does not reproduce")
    return 0
