"""checks.seqsem -- oracle for *sequences* and *joint* applications of action calls: composition of
ref.sem call semantics by substitution, over one symbolic initial state.  Shared by C04, C15, C16.
"""
import itertools
from typing import Dict, List, Tuple

import z3

from gen import programs as G
from ref import pddl as rpddl, sem as rsem, sexpr
from symx.core import SymBool, SymReal, exact
from . import lib, callsym

# A small multi-agent flavoured domain over universe U (agents and items are t1 objects).
MA_ACTIONS = [
    ("take", [("?a", "t1"), ("?i", "t1")], ["and", ["p", "?i"], ["not", ["q", "?a", "?i"]]],
     ["and", ["not", ["p", "?i"]], ["q", "?a", "?i"], ["increase", ["f", "?a"], "1"]]),
    ("drop", [("?a", "t1"), ("?i", "t1")], ["and", ["q", "?a", "?i"]],
     ["and", ["not", ["q", "?a", "?i"]], ["p", "?i"], ["decrease", ["f", "?a"], "1"]]),
    ("burn", [("?a", "t1"), ("?i", "t1"), ("?j", "t1")], ["and", ["q", "?a", "?i"], ["p", "?j"]],
     ["and", ["not", ["p", "?j"]], ["increase", ["g"], ["f", "?a"]]]),
    ("sweep", [("?a", "t1")], ["and", ["r"]],
     ["and", ["forall", ["?z", "-", "t1"], ["when", ["q", "?a", "?z"], ["not", ["q", "?a", "?z"]]]]]),
    ("flag", [("?a", "t1")], ["and"], ["and", ["when", ["p", "?a"], ["r"]], ["assign", ["f", "?a"], ["g"]]]),
    ("charge", [("?a", "t1")], ["and", [">=", ["g"], ["f", "?a"]]], ["and", ["decrease", ["g"], ["f", "?a"]], ["not", ["r"]]]),
    ("audit", [("?a", "t1")], ["and", ["forall", ["?z", "-", "t1"], ["or", ["p", "?z"], ["q", "?a", "?z"]]]],
     ["and", ["increase", ["f", "?a"], "2"]]),
    # an agent whose precondition is a fact about ANOTHER agent (q ?b ?a): what the other agent's sweep deletes and take re-establishes
    ("help", [("?a", "t1"), ("?b", "t1")], ["and", ["q", "?b", "?a"]], ["and", ["r"], ["increase", ["f", "?a"], "1"]]),
]


# parameter-less actions with quantifiers (single-agent plans only: they name no agent)
NULLARY_ACTIONS = [
    ("reset", [], ["and", ["r"]],
     ["and", ["forall", ["?z", "-", "t1"], ["when", ["p", "?z"], ["not", ["p", "?z"]]]], ["increase", ["g"], "1"]]),
    ("finish", [], ["and", ["forall", ["?z", "-", "t1"], ["or", ["p", "?z"], ["r"]]]],
     ["and", ["not", ["r"]], ["decrease", ["g"], "1"]]),
]


# a move-like action: the fact it deletes and the fact it adds coincide when the last two arguments do (the added fact stays)
MOVE_ACTIONS = [
    ("shift", [("?a", "t1"), ("?i", "t1"), ("?j", "t1")], ["and", ["q", "?a", "?i"], ["or", ["=", "?i", "?j"], ["p", "?j"], ["not", ["r"]]]],
     ["and", ["not", ["q", "?a", "?i"]], ["q", "?a", "?j"], ["increase", ["g"], "1"]]),
    # a quantified conditional effect whose condition reads what the same action changes (effects are simultaneous: the
    # condition is about the state before the action)
    ("pulse", [("?a", "t1")], ["and"],
     ["and", ["not", ["p", "?a"]], ["forall", ["?z", "-", "t1"], ["when", ["and", ["q", "?a", "?z"], ["p", "?a"]], ["p", "?z"]]],
      # two numeric effects that read each other's target, one of them the zero-arity fluent
      ["assign", ["f", "?a"], ["g"]], ["increase", ["g"], ["f", "?a"]]]),
]


def ma_domain_text(const=False, actions=None):
    acts = [(n, p, pre, eff) for n, p, pre, eff in (actions or MA_ACTIONS)]
    return G.domain_text(acts, const=const)


class Composer:
    """Composition of call semantics over one set of initial-state variables."""

    def __init__(self, domain_text: str, objects: Dict[str, str]):
        self.rd = rpddl.read_domain(domain_text)
        self.objects = dict(objects)
        self.eps = lib.lib_eps()
        self.vars = rsem.Vars()
        self.sem = rsem.Sem(self.rd, self.objects, self.eps, self.vars)
        self._cache = {}

    def call(self, name, args) -> rsem.CallSem:
        key = (name, tuple(args))
        if key not in self._cache:
            self._cache[key] = self.sem.call(self.rd.actions[name], list(args))
        return self._cache[key]

    def identity(self):
        return {}, {}  # sigma_atoms, sigma_fluents: missing = the initial variable itself

    def _subst(self, term, sa, sf):
        pairs = [(self.vars.atom(a), t) for a, t in sa.items()] + [(self.vars.fluent(f), t) for f, t in sf.items()]
        return z3.substitute(term, *pairs) if pairs else term

    def step(self, sa, sf, name, args, guard=None):
        """apply one call to the symbolic state (sa, sf).  Returns (pre_here, consistent_here, defined_here, sa', sf').
        If guard is given the effects are applied only where guard holds (refused step = unchanged state)."""
        cs = self.call(name, args)
        pre = self._subst(cs.pre, sa, sf)
        cons = self._subst(cs.consistent, sa, sf)
        dfn = self._subst(cs.defined, sa, sf)
        sa2, sf2 = dict(sa), dict(sf)
        for a, t in cs.next_atom.items():
            nt = self._subst(t, sa, sf)
            cur = sa.get(a, self.vars.atom(a))
            sa2[a] = nt if guard is None else z3.If(guard(pre), nt, cur)
        for f, t in cs.next_fluent.items():
            nt = self._subst(t, sa, sf)
            cur = sf.get(f, self.vars.fluent(f))
            sf2[f] = nt if guard is None else z3.If(guard(pre), nt, cur)
        return pre, cons, dfn, sa2, sf2

    def sequence(self, calls, order=None):
        """all members applied one after the other; returns (all_applicable_at_their_turn, consistent, defined, sa, sf)"""
        sa, sf = self.identity()
        pres, conss, dfns = [], [], []
        idx = order if order is not None else range(len(calls))
        for i in idx:
            n, args = calls[i]
            pre, cons, dfn, sa, sf = self.step(sa, sf, n, args)
            pres.append(pre)
            conss.append(cons)
            dfns.append(dfn)
        T = z3.BoolVal(True)
        return z3.And([T] + pres), z3.And([T] + conss), z3.And([T] + dfns), sa, sf

    def touched(self, calls):
        atoms, fluents = set(), set()
        for n, args in calls:
            cs = self.call(n, args)
            atoms |= cs.read_atoms | cs.written_atoms
            fluents |= cs.read_fluents | cs.written_fluents
        return sorted(atoms), sorted(fluents)

    def same_state(self, sa1, sf1, sa2, sf2):
        parts = []
        for a in set(sa1) | set(sa2):
            parts.append(sa1.get(a, self.vars.atom(a)) == sa2.get(a, self.vars.atom(a)))
        for f in set(sf1) | set(sf2):
            parts.append(sf1.get(f, self.vars.fluent(f)) == sf2.get(f, self.vars.fluent(f)))
        return z3.And([z3.BoolVal(True)] + parts)

    def non_interfering(self, calls):
        """semantic non-interference: in every order every member is applicable when its turn comes and the
        effects are consistent, and all orders reach the same state"""
        base = self.sequence(calls)
        parts = [base[0], base[1], base[2]]
        for order in itertools.permutations(range(len(calls))):
            if list(order) == list(range(len(calls))):
                continue
            s = self.sequence(calls, order)
            parts += [s[0], s[1], s[2], self.same_state(base[3], base[4], s[3], s[4])]
        return z3.And(parts)


def symbolic_state(world: lib.World, comp: Composer, sym_atoms: List[str], fluents: List[str], is_init=False):
    atoms = {a: SymBool(comp.vars.atom(a)) for a in sym_atoms}
    fl = {f: SymReal(comp.vars.fluent(f)) for f in fluents}
    return world.make_state(atoms, fl, is_init=is_init)


def state_obligations(comp: Composer, state, keys, sym_atoms, fluents, sa, sf):
    """z3 obligations: the library state equals the oracle state (sa, sf) on the symbolic slice; atoms outside
    the slice must be absent"""
    got = lib.state_atoms(state)
    obs = []
    for a in sym_atoms:
        obs.append((f"atom {a}", sa.get(a, comp.vars.atom(a)) == z3.BoolVal(a in got)))
    extra = got - set(sym_atoms)
    if extra:
        obs.append((f"unexpected atoms {sorted(extra)}", z3.BoolVal(False)))
    inv = {v: k for k, v in keys.items()}
    seen = set()
    for k, f in state.state_fluents.items():
        name = inv.get(k)
        if name is None:
            obs.append((f"unexpected fluent {k}", z3.BoolVal(False)))
            continue
        seen.add(name)
        v = f.value
        ve = v.e if isinstance(v, SymReal) else exact(v)
        obs.append((f"fluent {name}", ve == sf.get(name, comp.vars.fluent(name))))
    for name in fluents:
        if name not in seen:
            obs.append((f"fluent {name} missing", z3.BoolVal(False)))
    return obs


def model_state(model, comp: Composer, sym_atoms, fluents):
    from symx.core import zval
    atoms = {a: bool(z3.is_true(model.eval(comp.vars.atom(a), model_completion=True))) for a in sym_atoms}
    fls = {f: lib.to_float(zval(model, comp.vars.fluent(f))) for f in fluents}
    return atoms, fls


def eval_state_exact(comp: Composer, sa, sf, sym_atoms, fluents, atoms: Dict[str, bool], fls: Dict[str, float]):
    """oracle state (sa, sf) evaluated at a concrete initial state -> (set of atoms, dict fluent -> Fraction)"""
    from fractions import Fraction
    for a in sym_atoms:
        comp.vars.atom(a)
    for f in fluents:
        comp.vars.fluent(f)
    subs = [(comp.vars.atom(a), z3.BoolVal(bool(atoms.get(a, False)))) for a in list(comp.vars.atoms)]
    for f in list(comp.vars.fluents):
        fr = Fraction(fls.get(f, 0.0))
        subs.append((comp.vars.fluent(f), z3.Q(fr.numerator, fr.denominator) if fr.denominator != 1 else z3.RealVal(fr.numerator)))

    def ev(t):
        r = z3.simplify(z3.substitute(t, *subs))
        if z3.is_true(r):
            return True
        if z3.is_false(r):
            return False
        if z3.is_rational_value(r):
            return Fraction(r.numerator_as_long(), r.denominator_as_long())
        raise ValueError(f"cannot evaluate {r}")

    out_atoms = {a for a in sym_atoms if ev(sa.get(a, comp.vars.atom(a)))}
    out_fl = {f: ev(sf.get(f, comp.vars.fluent(f))) for f in fluents}
    return out_atoms, out_fl, ev
