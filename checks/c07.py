"""C07 -- queries and transitions are pure: inputs and earlier results are never modified.

Bounded symbolic execution of two-call histories (c1 ; c2 ; c1 again) of the real API from one
symbolic state.  Calls: ground, is_applicable, apply with each flag combination, re-apply the same
Operator object to an earlier result, apply through a second Operator, str(action),
preconditions.print (plain and simplified), serialize, DomainExporter.extract_domain, Domain(),
shallow_copy, parsing another domain, combining per-agent domains.  A structural digest of the
domain, every schema, the module-level default types, the argument state and every earlier result is
taken before and after c2 and must be unchanged -- fluent values are compared as z3 terms under the
path condition, so "the earlier result's (f o1) changed from f+1 to f+2" is solver-found for arbitrary
f -- and c1 repeated after c2 must return an equal result.  One arbitrary state + one call is the
inductive step for histories of any length, given that the digest covers all state that influences
behaviour (that coverage is the trusted part).

Thread interleavings are not explored.  A sufficient condition is monitored instead: the shared
containers (action.signature, domain.types/constants/predicates/functions/actions, the module-level
DEFAULT_TYPES) are replaced by recording subclasses and *any* write during a query or transition is a
violation even if it is undone before the call returns.
"""
import itertools
import json
import os
import random
import shutil
import traceback
from pathlib import Path

import z3

from gen import programs as G
from ref import sexpr
from symx import core
from symx.core import Ctx, SymBool, SymReal, Stats, explore, Inconclusive, Unsupported, PathLimit
from . import lib, runner, callsym

WRITES = []


class RecDict(dict):
    """dict that records every structural write"""

    _label = "?"

    def _rec(self, what):
        WRITES.append(f"{self._label}.{what}")

    def __setitem__(self, k, v):
        self._rec(f"__setitem__({k!r})")
        dict.__setitem__(self, k, v)

    def __delitem__(self, k):
        self._rec(f"__delitem__({k!r})")
        dict.__delitem__(self, k)

    def pop(self, *a):
        self._rec(f"pop({a[0]!r})")
        return dict.pop(self, *a)

    def popitem(self):
        self._rec("popitem")
        return dict.popitem(self)

    def update(self, *a, **k):
        self._rec("update")
        dict.update(self, *a, **k)

    def clear(self):
        self._rec("clear")
        dict.clear(self)

    def setdefault(self, k, d=None):
        if k not in self:
            self._rec(f"setdefault({k!r})")
        return dict.setdefault(self, k, d)


def rec(d, label):
    r = RecDict(d)
    r._label = label
    return r


def instrument(domain):
    import pddl_plus_parser.models.pddl_domain as pd
    domain.types = rec(domain.types, "domain.types")
    domain.constants = rec(domain.constants, "domain.constants")
    domain.predicates = rec(domain.predicates, "domain.predicates")
    domain.functions = rec(domain.functions, "domain.functions")
    domain.actions = rec(domain.actions, "domain.actions")
    for a in dict.values(domain.actions):
        a.signature = rec(a.signature, f"action[{a.name}].signature")
    if not isinstance(pd.DEFAULT_TYPES, RecDict):
        pd.DEFAULT_TYPES = rec(pd.DEFAULT_TYPES, "pddl_domain.DEFAULT_TYPES")


# ---------------------------------------------------------------------------------------------
# digests (no library __str__ of conditions: those run sympy and are themselves calls under test)
# ---------------------------------------------------------------------------------------------
def digest_action(a):
    return (a.name, tuple((k, v.name) for k, v in a.signature.items()), callsym._pre_key(a.preconditions.root),
            callsym._keys(a.discrete_effects), callsym._keys(a.numeric_effects), callsym._keys(a.conditional_effects),
            callsym._keys(a.universal_effects))


def digest_domain(d):
    import pddl_plus_parser.models.pddl_domain as pd
    from pddl_plus_parser.models import Domain
    fresh = Domain()
    return {
        "name": getattr(d, "name", None), "requirements": tuple(d.requirements),
        "types": tuple((k, v.parent.name if v.parent is not None else None) for k, v in d.types.items()),
        "constants": tuple((k, v.type.name) for k, v in d.constants.items()),
        "predicates": tuple((k, tuple((p, t.name) for p, t in v.signature.items())) for k, v in d.predicates.items()),
        "functions": tuple((k, tuple((p, t.name) for p, t in v.signature.items()), v.stored_value) for k, v in d.functions.items()),
        "actions": tuple(digest_action(a) for a in d.actions.values()),
        "DEFAULT_TYPES": tuple(sorted(pd.DEFAULT_TYPES.keys())),
        "fresh_Domain_types": tuple(sorted(fresh.types.keys())),
        "fresh_Domain_empty": (len(fresh.constants), len(fresh.predicates), len(fresh.functions), len(fresh.actions)),
    }


def digest_state(s):
    return lib.state_atoms(s), {k: f.value for k, f in s.state_fluents.items()}, s.is_init


def same_value(ctx, x, y):
    if x is y:
        return True
    if isinstance(x, SymReal) or isinstance(y, SymReal):
        xe = x.e if isinstance(x, SymReal) else core.exact(x)
        ye = y.e if isinstance(y, SymReal) else core.exact(y)
        if xe.eq(ye):
            return True
        return ctx.check(xe != ye, expect_unsat=True) == "unsat"
    return x == y


def same_state_digest(ctx, a, b):
    if a[0] != b[0] or set(a[1]) != set(b[1]) or a[2] != b[2]:
        return False
    return all(same_value(ctx, a[1][k], b[1][k]) for k in a[1])


# ---------------------------------------------------------------------------------------------
OTHER_DOMAIN = """(define (domain other) (:requirements :typing :fluents)
 (:types zz1 zz2 - object zz3 - zz1)
 (:constants cz1 - zz1 cz2 - zz2)
 (:predicates (pz ?a - zz1))
 (:functions (fz ?a - zz1))
 (:action az :parameters (?a - zz3) :precondition (and (pz ?a)) :effect (and (not (pz ?a)))))"""
UNTYPED_DOMAIN = """(define (domain untyped) (:requirements :strips)
 (:predicates (pu ?a))
 (:action au :parameters (?a) :precondition (and (pu ?a)) :effect (and (not (pu ?a)))))"""

# calls whose result must not depend on what the operator object was used for before (compared with the same call made
# by a freshly built operator)
HISTORY_FREE = ("applicable", "applicable_other_state", "apply", "apply_allow", "apply_skip", "apply_other_state")

CALLS = ["ground", "applicable", "apply", "apply_allow", "apply_skip", "reapply_result", "second_operator_apply", "str_action",
         "print_plain", "print_simplified", "serialize", "export", "new_domain", "shallow_copy", "parse_other", "parse_untyped",
         "combine_domains", "typed_action_call", "applicable_other_state", "apply_other_state", "print_simplified_2",
         "print_other_domain_simplified"]


def vocab_keys(d):
    """every section of a Domain object: what a fresh or unrelated domain holds must not depend on the history"""
    return " | ".join(f"{sec}: {sorted(getattr(d, sec).keys())}" for sec in ("types", "constants", "predicates", "functions", "actions"))


class History:
    def __init__(self, world, state, task, state2=None):
        self.world, self.state, self.task = world, state, task
        self.state2 = state2 if state2 is not None else state
        self.op = callsym.make_operator(world, task)
        self.results = []

    def run(self, call):
        from pddl_plus_parser.models import Operator, Domain
        w, op, s = self.world, self.op, self.state
        act = w.domain.actions[self.task["action"]]
        if call == "ground":
            op.ground()
            return ("none",)
        if call == "applicable":
            return ("bool", bool(op.is_applicable(s)))
        if call == "applicable_other_state":
            return ("bool", bool(op.is_applicable(self.state2)))
        if call == "apply_other_state":
            return ("state", op.apply(self.state2, allow_inapplicable_actions=True))
        if call in ("apply", "apply_allow", "apply_skip"):
            kw = {"apply": {}, "apply_allow": {"allow_inapplicable_actions": True},
                  "apply_skip": {"skip_validation": True}}[call]
            try:
                r = op.apply(s, **kw)
            except Exception as e:  # noqa
                if not lib.is_refusal(e):
                    raise
                return ("refused",)
            self.results.append(r)
            return ("state", r)
        if call == "reapply_result":
            if not self.results:
                return ("none",)
            r = op.apply(self.results[-1], allow_inapplicable_actions=True)
            self.results.append(r)
            return ("none",)  # depends on the history by design: not compared on repetition
        if call == "second_operator_apply":
            op2 = Operator(act, w.domain, list(self.task["args"]), w.objects)
            r = op2.apply(s, allow_inapplicable_actions=True)
            self.results.append(r)
            return ("state", r)
        if call == "str_action":
            return ("text", str(act) + "|" + str(op) + "|" + act.effects_to_pddl())
        if call == "typed_action_call":
            return ("text", op.typed_action_call)
        if call == "print_plain":
            return ("text", act.preconditions.print(should_simplify=False))
        if call == "print_simplified":
            return ("text", act.preconditions.print(should_simplify=True, decimal_digits=4))
        if call == "print_simplified_2":
            return ("text", act.preconditions.print(should_simplify=True, decimal_digits=2))
        if call == "print_other_domain_simplified":
            # a structurally equal precondition of ANOTHER parsed domain, printed at another precision
            d2 = lib.parse_domain(self.task["domain_text"].replace("(domain u)", "(domain u2)"))
            return ("text", d2.actions[self.task["action"]].preconditions.print(should_simplify=True, decimal_digits=1))
        if call == "serialize":
            return ("text", s.serialize() + s.typed_serialize())
        if call == "export":
            from pddl_plus_parser.exporters import DomainExporter
            return ("tokens", sorted(sexpr.tokens(DomainExporter().extract_domain(w.domain))))
        if call == "new_domain":
            d = Domain()
            return ("text", vocab_keys(d))
        if call == "shallow_copy":
            c = w.domain.shallow_copy()
            return ("text", vocab_keys(c))
        if call == "parse_other":
            d = lib.parse_domain(OTHER_DOMAIN)
            return ("text", vocab_keys(d))
        if call == "parse_untyped":
            d = lib.parse_domain(UNTYPED_DOMAIN)
            return ("text", vocab_keys(d))
        if call == "combine_domains":
            from pddl_plus_parser.multi_agent import MultiAgentDomainsConverter
            tmp = Path(lib.tmpdir()) / f"ma_{os.getpid()}"
            tmp.mkdir(exist_ok=True)
            (tmp / "domain-a1.pddl").write_text(OTHER_DOMAIN)
            (tmp / "domain-a2.pddl").write_text(OTHER_DOMAIN.replace("zz2", "zz9"))
            d = MultiAgentDomainsConverter(tmp).locate_domains()
            return ("text", vocab_keys(d))
        raise ValueError(call)


# calls whose result is a text that depends on the (concrete) domain only: their result in ANY history must be the text the
# same call returns as the very first call of a fresh interpreter (computed once per run, one fresh process per call)
PURE_TEXT_CALLS = ("str_action", "typed_action_call", "print_plain", "print_simplified", "print_simplified_2",
                   "print_other_domain_simplified", "export", "new_domain", "parse_other", "parse_untyped", "combine_domains",
                   "shallow_copy")


def _bag(x):
    """a text as the multiset of its tokens: two interpreters may iterate the library's sets in different orders"""
    return sorted(sexpr.tokens(x)) if isinstance(x, str) else sorted(x)


def _baseline_one(job):
    """runs in a freshly spawned interpreter: nothing has been parsed, printed or cached before"""
    text, args, call = job
    task = dict(domain_text=text, action="act", args=list(args), objects=dict(G.OBJECTS), mode="apply")
    world = lib.World(text, task["objects"])
    state, _ = world.make_state({}, {})
    r = History(world, state, task).run(call)
    return r[1] if r[0] in ("text", "tokens") else None


def baselines(jobs):
    import multiprocessing as mp
    ctx = mp.get_context("spawn")
    with ctx.Pool(min(runner.workers(), max(1, len(jobs))), maxtasksperchild=1) as pool:
        return pool.map(_baseline_one, jobs, chunksize=1)


def results_equal(ctx, a, b):
    if a[0] != b[0]:
        return False
    if a[0] in ("none", "refused"):
        return True
    if a[0] == "state":
        return same_state_digest(ctx, digest_state(a[1]), digest_state(b[1]))
    return a[1] == b[1]


def run_history(task):
    res = {"task": {k: task[k] for k in ("label", "args", "c1", "c2")}, "outcome": "held", "paths": 0, "obligations": 0, "cex": None}
    stats = Stats()
    try:
        lib.install_math_shim()
        prep = callsym.Prepared(task)
        if prep.out_of_bound:
            res["outcome"] = "out_of_bound"
            return res
        c1, c2 = task["c1"], task["c2"]

        def fn(ctx: Ctx):
            if not ctx.assume(prep.cs.defined):
                return None
            import pddl_plus_parser.models.pddl_domain as pd
            if isinstance(pd.DEFAULT_TYPES, RecDict):
                pd.DEFAULT_TYPES = dict(pd.DEFAULT_TYPES)  # fresh monitor per path
                for k in [k for k in pd.DEFAULT_TYPES if k != "object"]:
                    del pd.DEFAULT_TYPES[k]
            world = lib.World(task["domain_text"], task["objects"])
            instrument(world.domain)
            state, keys = callsym.build_state(ctx, world, prep)
            # a second, independent state over the same facts with its own fluent values; optionally the first state
            # leaves one fluent undefined (the library reads an undefined fluent as 0)
            fl2 = {f: SymReal(z3.Real("v2" + f)) for f in prep.all_fluents}
            if task.get("state2_atoms") == "independent":
                at2 = {a: SymBool(z3.Bool("a2" + a)) for a in prep.sym_atoms}
            else:
                at2 = {a: SymBool(prep.vars.atom(a)) for a in prep.sym_atoms}
            state2, _ = world.make_state(at2, fl2)
            if task.get("omit") == "*":
                state.state_fluents.clear()
            elif task.get("omit") and task["omit"] in keys:
                del state.state_fluents[keys[task["omit"]]]
            h = History(world, state, task, state2)
            del WRITES[:]
            v1 = h.run(c1)
            writes1 = list(WRITES)
            d_dom, d_state = digest_domain(world.domain), digest_state(state)
            d_res = [digest_state(r) for r in h.results]
            del WRITES[:]
            v2 = h.run(c2)
            writes2 = list(WRITES)
            problems = []
            base = task.get("baseline") or {}
            for cname, val in ((c1, v1), (c2, v2)):
                if cname in base and val[0] in ("text", "tokens") and _bag(val[1]) != _bag(base[cname]):
                    problems.append(f"{cname} in the history ({c1} ; {c2}) returned another text than as the first call of a fresh "
                                    f"interpreter: {str(val[1])[:120]} vs {str(base[cname])[:120]}")
            if c2 in HISTORY_FREE:
                try:
                    v2_fresh = History(world, state, task, state2).run(c2)
                except Exception as e:  # noqa
                    v2_fresh = ("raised", type(e).__name__)
                if not results_equal(ctx, v2, v2_fresh):
                    problems.append(f"{c2} after {c1} returned a different result than {c2} by a freshly built operator")
            if writes1 and c1 not in ("combine_domains",):
                problems.append(f"{c1} wrote to shared containers: {writes1[:3]}")
            if writes2 and c2 not in ("combine_domains",):
                problems.append(f"{c2} wrote to shared containers: {writes2[:3]}")
            elif writes2 and any("DEFAULT_TYPES" in w or "domain." in w or "action[" in w for w in writes2):
                problems.append(f"{c2} wrote to containers it does not own: {[w for w in writes2 if 'DEFAULT_TYPES' in w or 'action[' in w or 'domain.' in w][:3]}")
            d_dom2 = digest_domain(world.domain)
            for k in d_dom:
                if d_dom[k] != d_dom2[k]:
                    problems.append(f"after {c2}: domain digest '{k}' changed from {str(d_dom[k])[:160]} to {str(d_dom2[k])[:160]}")
            if not same_state_digest(ctx, d_state, digest_state(state)):
                problems.append(f"after {c2}: the argument state changed")
            for i, d in enumerate(d_res):
                if not same_state_digest(ctx, d, digest_state(h.results[i])):
                    problems.append(f"after {c2}: the state returned earlier by {c1} changed")
            n_before = len(h.results)
            v1b = h.run(c1)
            if not results_equal(ctx, v1, v1b):
                problems.append(f"{c1} repeated after {c2} returned a different result")
            return problems

        def on_path(ctx: Ctx, pr):
            if pr.kind == "exc":
                if res["outcome"] != "violation":
                    res["outcome"] = "violation"
                    res["cex"] = {"what": f"raised {type(pr.value).__name__}: {pr.value}", "state": _model(ctx, prep)}
                return
            if pr.value is None:
                return
            res["obligations"] += 6
            if pr.value and res["outcome"] != "violation":
                res["outcome"] = "violation"
                res["cex"] = {"what": "; ".join(pr.value[:3]), "state": _model(ctx, prep)}

        explore(fn, on_path, stats=stats, max_paths=task.get("max_paths", 600), timeout_ms=5000, time_budget_s=core.task_budget())
    except Inconclusive as e:
        res["outcome"], res["detail"] = "inconclusive", str(e)
    except PathLimit as e:
        if res["outcome"] != "violation":
            res["outcome"], res["detail"] = "out_of_bound", str(e)
    except Unsupported as e:
        res["outcome"], res["detail"] = "inconclusive", f"unsupported: {e}"
    except Exception as e:  # noqa
        res["outcome"], res["detail"] = "error", f"{type(e).__name__}: {e} {traceback.format_exc()[-900:]}"
    res["paths"] = stats.paths
    res["stats"] = stats.as_dict()
    return res


def _model(ctx, prep):
    if ctx.check() != "sat":
        return None
    m = ctx.solver.model()
    atoms, fls = callsym.model_assignment(m, prep)
    out = {"atoms_true": sorted(a for a, v in atoms.items() if v), "fluents": {f: lib.to_float(v) for f, v in fls.items()}}
    # the second state: its own fluent values and (when independent) its own facts
    out["fluents2"] = {f: lib.to_float(core.zval(m, z3.Real("v2" + f))) for f in prep.all_fluents}
    out["atoms2_true"] = sorted(a for a in prep.sym_atoms if z3.is_true(m.eval(z3.Bool("a2" + a), model_completion=True)))
    return out


def replay_history(task, state):
    """the same history on a concrete state with plain floats"""
    import pddl_plus_parser.models.pddl_domain as pd
    prep = callsym.Prepared(task)
    if isinstance(pd.DEFAULT_TYPES, RecDict):
        pd.DEFAULT_TYPES = {k: v for k, v in pd.DEFAULT_TYPES.items() if k == "object"}
    world = lib.World(task["domain_text"], task["objects"])
    instrument(world.domain)
    fl = {f: 0.0 for f in prep.all_fluents}
    fl.update(state.get("fluents", {}))
    s, keys = callsym.concrete_state(world, prep, {a: True for a in state.get("atoms_true", [])}, fl)
    fl2 = {f: v + 3.5 for f, v in fl.items()}
    fl2.update(state.get("fluents2", {}))
    at2 = state.get("atoms2_true") if task.get("state2_atoms") == "independent" else state.get("atoms_true", [])
    s2, _ = callsym.concrete_state(world, prep, {a: True for a in (at2 or [])}, fl2)
    if task.get("omit") == "*":
        s.state_fluents.clear()
    elif task.get("omit") and task["omit"] in keys:
        del s.state_fluents[keys[task["omit"]]]
    h = History(world, s, task, s2)

    class C:  # concrete comparisons need no solver
        @staticmethod
        def check(*a, **k):
            return "unsat"

    del WRITES[:]
    v1 = h.run(task["c1"])
    w1 = list(WRITES)
    d_dom, d_state, d_res = digest_domain(world.domain), digest_state(s), [digest_state(r) for r in h.results]
    del WRITES[:]
    v2 = h.run(task["c2"])
    w2 = list(WRITES)
    problems = []
    base = task.get("baseline") or {}
    for cname, val in ((task["c1"], v1), (task["c2"], v2)):
        if cname in base and val[0] in ("text", "tokens") and _bag(val[1]) != _bag(base[cname]):
            problems.append(f"{cname} returned another text than as the first call of a fresh interpreter")

    def differ(a, b):
        return a[0] != b[0] or (a[0] == "state" and (digest_state(a[1])[0] != digest_state(b[1])[0] or digest_state(a[1])[1] != digest_state(b[1])[1])) \
            or (a[0] in ("bool", "text", "tokens") and a[1] != b[1])

    if task["c2"] in HISTORY_FREE:
        try:
            v2_fresh = History(world, s, task, s2).run(task["c2"])
        except Exception as e:  # noqa
            v2_fresh = ("raised", type(e).__name__)
        if differ(v2, v2_fresh):
            problems.append(f"{task['c2']} after {task['c1']} differs from the same call by a freshly built operator")
    if w1 and task["c1"] != "combine_domains":
        problems.append(f"{task['c1']} wrote {w1[:3]}")
    if w2 and (task["c2"] != "combine_domains" or any("DEFAULT_TYPES" in w or "action[" in w or "domain." in w for w in w2)):
        problems.append(f"{task['c2']} wrote {w2[:3]}")
    d2 = digest_domain(world.domain)
    problems += [f"domain digest {k} changed" for k in d_dom if d_dom[k] != d2[k]]
    if d_state[0] != digest_state(s)[0] or d_state[1] != digest_state(s)[1]:
        problems.append("argument state changed")
    for i, d in enumerate(d_res):
        dn = digest_state(h.results[i])
        if d[0] != dn[0] or d[1] != dn[1]:
            problems.append(f"earlier result changed: {d[1]} -> {dn[1]}")
    v1b = h.run(task["c1"])
    if v1[0] != v1b[0] or (v1[0] == "state" and (digest_state(v1[1])[0] != digest_state(v1b[1])[0] or digest_state(v1[1])[1] != digest_state(v1b[1])[1])) \
            or (v1[0] in ("bool", "text", "tokens") and v1[1] != v1b[1]):
        problems.append(f"{task['c1']} repeated returned a different result")
    return problems


PROGRAMS = [
    # a coefficient that prints differently at 1, 2 and 4 decimals
    ("P2", ["and", ["p", "?x"], ["<=", ["*", ["f", "?x"], "0.123456"], ["+", ["f", "?y"], "2.5"]]], ["and", ["not", ["p", "?x"]], ["increase", ["f", "?y"], "0.25"]]),
    # the only numeric comparison sits inside a nested junction
    ("P1", ["and", ["p", "?x"], ["or", ["r"], [">=", ["f", "?x"], ["g"]]]], ["and", ["when", ["r"], ["increase", ["g"], "1"]], ["not", ["p", "?x"]]]),
    ("P2", ["and", ["p", "?x"], [">=", ["f", "?x"], ["g"]]], ["and", ["not", ["p", "?x"]], ["increase", ["f", "?x"], "1"]]),
    ("P2", ["and", ["or", ["p", "?x"], ["q", "?x", "?y"]]], ["and", ["when", ["q", "?x", "?y"], ["and", ["not", ["q", "?x", "?y"]], ["assign", ["g"], ["f", "?y"]]]], ["p", "?y"]]),
    ("P1", ["and", ["forall", ["?z", "-", "t1"], ["and", ["not", ["q", "?z", "?x"]]]]], ["and", ["forall", ["?z", "-", "t3"], ["when", ["p", "?z"], ["and", ["not", ["p", "?z"]], ["increase", ["f", "?z"], ["g"]]]]]]),
    ("P2", ["and", ["not", ["=", "?x", "?y"]], ["<", ["*", ["f", "?x"], "0.5"], ["+", ["f", "?y"], "2.5"]]], ["and", ["decrease", ["f", "?y"], ["f", "?x"]], ["forall", ["?z", "-", "t1"], ["when", ["q", "?x", "?z"], ["q", "?z", "?x"]]]]),
]


def tasks_for(tier, seed):
    rng = random.Random(seed * 3 + 1)
    pairs = list(itertools.product(CALLS, CALLS))
    tasks = []
    for pi, (pl, pre, eff) in enumerate(PROGRAMS):
        params = G.PARAM_LISTS[pl]
        text = G.domain_text([("act", params, pre, eff)], const=True)
        args_list = G.arg_tuples(params, True, limit=2 if tier == "quick" else 4)
        chosen = pairs if tier == "thorough" else rng.sample(pairs, 130)
        # always include the histories the property text names
        must = [("apply", "reapply_result"), ("apply", "apply"), ("apply", "export"), ("export", "apply"), ("apply", "combine_domains"),
                ("new_domain", "combine_domains"), ("new_domain", "parse_other"), ("str_action", "apply"), ("applicable", "apply_allow"),
                ("apply_allow", "second_operator_apply"), ("shallow_copy", "apply"), ("print_simplified", "apply"),
                ("export", "combine_domains"), ("parse_untyped", "combine_domains"), ("second_operator_apply", "reapply_result"),
                ("print_simplified", "print_simplified_2"), ("print_simplified_2", "print_simplified"),
                ("print_simplified", "print_other_domain_simplified"), ("print_other_domain_simplified", "print_simplified_2"),
                ("print_plain", "print_simplified_2"), ("parse_untyped", "parse_other"), ("combine_domains", "parse_untyped"),
                ("combine_domains", "new_domain"), ("parse_other", "new_domain")]
        for c1, c2 in list(dict.fromkeys(must + chosen)):
            for args in (args_list if (c1, c2) in must else args_list[:1]):
                tasks.append(dict(domain_text=text, action="act", args=args, objects=dict(G.OBJECTS), mode="apply",
                                  label=f"pre {sexpr.render(pre)} eff {sexpr.render(eff)}", c1=c1, c2=c2, cap=8, frame_atoms=0,
                                  max_paths=400 if tier == "quick" else 4000))
        # the same operator object used on another state in between; the first state leaves a fluent undefined
        if "(g)" in sexpr.render(pre) + sexpr.render(eff):
            for c1, c2 in (("applicable", "applicable_other_state"), ("apply_allow", "apply_other_state"),
                           ("apply_allow", "applicable_other_state"), ("applicable", "apply_other_state")):
                for omit in (None, "(g)"):
                    tasks.append(dict(domain_text=text, action="act", args=args_list[0], objects=dict(G.OBJECTS), mode="apply",
                                      label=f"[first state omits {omit}] pre {sexpr.render(pre)} eff {sexpr.render(eff)}", c1=c1, c2=c2,
                                      cap=8, frame_atoms=0, omit=omit, max_paths=400 if tier == "quick" else 4000))
        # round 20-22: a state that defines NO fluent at all (an early exit on an empty fluent table), the same operator twice
        if any(w in sexpr.render(eff) for w in ("increase", "decrease", "assign")):
            for c1, c2 in (("apply_allow", "apply_allow"), ("apply_allow", "second_operator_apply"), ("apply_allow", "reapply_result"),
                           ("applicable", "apply_allow")):
                tasks.append(dict(domain_text=text, action="act", args=args_list[0], objects=dict(G.OBJECTS), mode="apply",
                                  label=f"[state without fluents] pre {sexpr.render(pre)} eff {sexpr.render(eff)}", c1=c1, c2=c2,
                                  cap=8, frame_atoms=0, omit="*", max_paths=400 if tier == "quick" else 4000))
    # baselines of the pure text calls, one fresh interpreter each
    keys = sorted({(t["domain_text"], tuple(t["args"])) for t in tasks})
    jobs = [(text, args, call) for (text, args) in keys for call in PURE_TEXT_CALLS]
    got = baselines(jobs)
    table = {}
    for (text, args, call), val in zip(jobs, got):
        if val is not None:
            table.setdefault((text, args), {})[call] = val
    for t in tasks:
        t["baseline"] = table.get((t["domain_text"], tuple(t["args"])), {})
    # an operator built WITHOUT the problem's objects (quantifiers then range over the objects that occur in the state it is
    # asked about) used on two states with independent facts
    pl, pre, eff = PROGRAMS[4]
    text = G.domain_text([("act", G.PARAM_LISTS[pl], pre, eff)], const=True)
    for c1, c2 in (("applicable", "applicable_other_state"), ("applicable_other_state", "applicable"),
                   ("apply_allow", "apply_other_state"), ("applicable", "apply_other_state")):
        for args in G.arg_tuples(G.PARAM_LISTS[pl], True, limit=2):
            tasks.append(dict(domain_text=text, action="act", args=args, objects=dict(G.OBJECTS), mode="apply", with_objects=False,
                              label=f"[operator without problem objects; independent second state] pre {sexpr.render(pre)} "
                                    f"eff {sexpr.render(eff)}", c1=c1, c2=c2, cap=8, frame_atoms=0, state2_atoms="independent",
                              max_paths=400 if tier == "quick" else 4000))
    return tasks


def twin():
    """the digest must notice a deliberately leaked signature entry and a rewritten earlier result"""
    text = G.domain_text([("act", G.PARAM_LISTS["P1"], ["and"], ["and", ["increase", ["f", "?x"], "1"]])], const=True)
    w = lib.World(text, G.OBJECTS)
    d1 = digest_domain(w.domain)
    w.domain.actions["act"].signature["?leak"] = w.domain.types["t1"]
    d2 = digest_domain(w.domain)
    return d1 != d2


def main(tier):
    rep = runner.Report("C07", tier, "other")
    tasks = tasks_for(tier, runner.seed())
    results = runner.pmap(run_history, tasks)
    from collections import Counter
    c, agg = Counter(), Counter()
    paths = obligations = nontrivial = 0
    solver_s = 0.0
    samples = []
    known = runner.load_known("C07")
    for t, r in zip(tasks, results):
        c[r["outcome"]] += 1
        paths += r["paths"]
        obligations += r["obligations"]
        st = r.get("stats") or {}
        for k in runner.STAT_KEYS:
            agg[k] += st.get(k, 0)
        solver_s += st.get("solver_seconds", 0.0)
        if r["paths"] >= 2:
            nontrivial += 1
        label = f"history ({t['c1']} ; {t['c2']} ; {t['c1']}) on {t['label']} args={t['args']}"
        if r["outcome"] == "violation":
            cx = r["cex"]
            confirmed = None
            if cx.get("state") is not None:
                try:
                    confirmed = replay_history(t, cx["state"])
                except Exception as e:  # noqa
                    confirmed = [f"replay raised {type(e).__name__}: {e}"]
            if confirmed is not None and not confirmed:
                rep.coverage["unconfirmed_counterexamples"] = rep.coverage.get("unconfirmed_counterexamples", 0) + 1
                continue
            k = next((k for k in known if all(x in cx["what"] for x in k.get("detail_contains", ["\0"]))), None)
            if k is not None:
                rep.known(k)
                continue
            rep.violation(f"{label}: {cx['what']}" + (f" in the state {cx['state']}" if cx.get("state") else ""),
                          {"property": "C07", "kind": "c07", "task": t, "cex": cx})
        elif r["outcome"] == "inconclusive":
            rep.inconclusive.append(f"{label}: {r.get('detail')}")
        elif r["outcome"] == "error":
            rep.errors.append(f"{label}: {r.get('detail')}")
        elif r["outcome"] == "held" and len(samples) < 4 and r["paths"] >= 4:
            samples.append({"history": [t["c1"], t["c2"], t["c1"]], "program": t["label"], "args": t["args"], "paths": r["paths"]})
    if not twin():
        rep.twins_failed.append("vacuity twin: the digest did not notice a leaked signature entry")
    q = dict(agg)
    q["solver_seconds"] = round(solver_s, 2)
    rep.coverage.update({
        "evaluations": len(tasks), "distinct_nontrivial": nontrivial,
        "rule": "one evaluation = one (program, arguments, ordered pair of calls) history c1;c2;c1 explored over all feasible paths from "
                "a symbolic state; non-trivial = >=2 feasible paths",
        "samples": samples or [{"note": "none"}], "outcomes": dict(c), "paths": paths, "obligations": obligations, "queries": q,
        "exhaustive": tier == "thorough",
        "calls": CALLS,
        "bounds": {"programs": "4 programs with numeric, conditional and universal conditions/effects", "pairs": "15 named histories + "
                   "70 sampled ordered pairs per program (quick) / all 324 (thorough)", "outside": "real threads (a write monitor on "
                   "the shared containers is the sufficient condition checked instead); histories longer than c1;c2;c1 (one "
                   "arbitrary state + one call is the inductive step, argued not mechanised); the problem/trajectory parsers"},
        "functions_executed_symbolically": ["Operator.ground/is_applicable/apply", "GroundedEffect.*", "GroundedPrecondition.*",
                                            "State.copy/serialize", "Action.__str__/effects_to_pddl", "Precondition.print",
                                            "DomainExporter.extract_domain", "Domain.__init__/shallow_copy", "DomainParser.parse_domain",
                                            "MultiAgentDomainsConverter.locate_domains"],
    })
    rep.assumptions += ["the structural digest covers all state that influences behaviour", "real arithmetic"]
    return rep.finish(total=len(tasks))


def replay(payload, path):
    t, cx = payload["task"], payload["cex"]
    if cx.get("state") is None:
        print("no concrete state recorded")
        return 0
    problems = replay_history(t, cx["state"])
    print(problems)
    if problems:
        print(f"VIOLATION property=C07 replay={path}")
        return 1
    print("does not reproduce")
    return 0
