"""checks.prelude -- "this process has a past".

Every property quantifies over *any* domain, problem, plan, state or log.  A library function that keeps something
between calls at process level (a module-level dict, an lru_cache, a mutable default argument, a value kept on a shared
object) answers correctly for the first domain a process handles and wrongly for the next one.  The checks' workers are
forked from this process, so before any check (and any replay) runs, this process handles ANOTHER domain and problem
through the whole public API, concretely: the same names as the universe of the checks -- domain name, types,
predicates, functions, actions, objects, the constant -- with the roles of t1 and t2 exchanged and other action bodies.
Whatever the library makes of that other domain is not judged; the checks that follow must not depend on it.

Each step is independent; a step that raises is counted (the evidence lists how many ran to completion) so that a
prelude that silently does nothing is visible.  VERIF_NO_PRELUDE=1 switches it off.
"""
import os
import re
import tempfile

INFO = {"enabled": False}

_SWAP = re.compile(r"\bt([12])\b")


def swapped(text: str) -> str:
    return _SWAP.sub(lambda m: "t2" if m.group(1) == "1" else "t1", text)


def run():
    if os.environ.get("VERIF_NO_PRELUDE"):
        INFO.update(enabled=False, reason="VERIF_NO_PRELUDE")
        return INFO
    from gen import programs as G
    from . import lib, seqsem
    ok, failed = [], []

    def step(name, fn):
        try:
            fn()
            ok.append(name)
        except Exception as e:  # noqa -- not the subject
            failed.append(f"{name}: {type(e).__name__}: {str(e)[:80]}")

    ctx = {}

    def other_universe():
        # same names, other types, other bodies; P2-like parameters (they are of type t2 after the exchange)
        pre = ["and", ["q", "?x", "?y"], ["or", ["p", "?y"], ["not", ["r"]]], [">=", ["+", ["f", "?x"], ["*", "0.33333", ["g"]]], "1.5"],
               ["forall", ["?z", "-", "t1"], ["or", ["p", "?z"], ["q", "?z", "?x"]]]]
        eff = ["and", ["not", ["q", "?x", "?y"]], ["p", "?x"], ["increase", ["f", "?y"], ["*", ["g"], "2"]], ["assign", ["g"], ["h", "?x", "?y"]],
               ["forall", ["?z", "-", "t1"], ["when", ["p", "?z"], ["not", ["p", "?z"]]]], ["when", ["r"], ["q", "?y", "?x"]]]
        text = swapped(G.domain_text([("act", G.PARAM_LISTS["P2"], pre, eff)], const=True))
        ctx["text"] = text
        ctx["objects"] = {o: swapped(t) for o, t in G.OBJECTS.items()}
        ctx["world"] = lib.World(text, ctx["objects"])

    step("parse another domain with the universe's names over exchanged types", other_universe)

    def ground_and_apply():
        from pddl_plus_parser.models import Operator
        w = ctx["world"]
        names = [o for o, t in ctx["objects"].items() if t == "t2"] or list(ctx["objects"])
        a, b = names[0], names[-1]
        state, _ = w.make_state({f"(q {a} {b})": True, f"(p {b})": True, "(r)": True},
                                {f"(f {a})": 2.0, f"(f {b})": 3.0, "(g)": 0.5, f"(h {a} {b})": 7.0})
        ctx["state"] = state
        for args in ([a, b], [b, a], [a, a]):
            for objects in (w.objects, None):
                op = Operator(w.domain.actions["act"], w.domain, list(args), objects)
                op.is_applicable(state)
                nxt = op.apply(state, allow_inapplicable_actions=True)
                op.is_applicable(nxt)
                str(op), op.typed_action_call
                nxt.serialize(), nxt == state, nxt.copy()

    step("ground, query and apply its action (with and without problem objects)", ground_and_apply)

    def print_and_export():
        from pddl_plus_parser.exporters import DomainExporter
        w = ctx["world"]
        act = w.domain.actions["act"]
        for digits in (1, 4):
            act.preconditions.print(should_simplify=True, decimal_digits=digits)
        act.preconditions.print(should_simplify=False)
        str(act)
        lib.parse_domain(DomainExporter().extract_domain(w.domain))
        str(w.domain)

    step("print its conditions (plain, simplified at two precisions), export it and parse it back", print_and_export)

    def problem_roundtrip():
        from pddl_plus_parser.exporters import ProblemExporter
        w = ctx["world"]
        names = list(ctx["objects"])
        init = [["q", names[0], names[1]], ["r"], ["=", ["f", names[0]], "2.5"], ["=", ["g"], "1"]]
        text = G.problem_text(objects=ctx["objects"], init=init, goal=[["r"], [">", ["f", names[0]], "1"]])
        problem = lib.parse_problem(text, w.domain)
        lib.parse_problem(ProblemExporter().extract_problem(problem), w.domain)
        ctx["problem"] = problem

    step("parse, export and re-parse a problem of it (the universe's object names, other types)", problem_roundtrip)

    def trajectory_roundtrip():
        from pddl_plus_parser.exporters import TrajectoryExporter
        from pddl_plus_parser.lisp_parsers import TrajectoryParser
        w, problem = ctx["world"], ctx["problem"]
        names = list(ctx["objects"])
        exporter = TrajectoryExporter(w.domain, allow_invalid_actions=True)
        triplets = exporter.parse_plan(problem, action_sequence=[f"(act {names[0]} {names[1]})", f"(act {names[1]} {names[0]})"])
        with tempfile.TemporaryDirectory(prefix="verif_prelude_") as d:
            from pathlib import Path
            path = Path(d) / "t.trajectory"
            exporter.export_to_file(triplets, path)
            TrajectoryParser(w.domain, problem).parse_trajectory(path)
            TrajectoryParser(w.domain).parse_trajectory(path)

    step("execute a plan, export the trajectory to a file and parse it back (with and without the problem)", trajectory_roundtrip)

    def joint_actions():
        from . import c16
        for slots in ([("take", ["o1", "o2"]), ("drop", ["o2", "o3"]), None], [("sweep", ["o1"]), ("flag", ["o2"]), ("audit", ["o3"])],
                      [("burn", ["o1", "o2", "o3"]), ("charge", ["o2"]), None]):
            c16._warm_up(slots, False)
            c16._warm_up(slots, True)

    step("execute joint actions of another multi-agent domain with the same action names", joint_actions)

    def simplifier():
        from pddl_plus_parser.models import numeric_symbolic_operations as nso
        nso.simplify_complex_numeric_expression("(((f ?x) * 0.33333) + ((g ) * (h ?x ?y)))", decimal_digits=1)
        nso.simplify_inequality("(((f ?x) * 3) >= ((g ) + 0.5))", ">=", ["(g ) = (2 - (f ?x))"], decimal_digits=1)
        nso.simplify_equality("((f ?x) + (g )) = 3", decimal_digits=1)

    step("simplify numeric conditions over the universe's fluent names at one decimal", simplifier)

    def renaming():
        import copy
        w = ctx["world"]
        act = copy.deepcopy(w.domain.actions["act"])
        if hasattr(act, "change_signature"):
            act.change_signature({"?x": "?y", "?y": "?x", "?z": "?z", "k": "k"})

    step("rename the parameters of a copy of its action", renaming)

    INFO.update(enabled=True, steps_completed=ok, steps_raised=failed,
                what="before the check this process handled another domain/problem/plan that uses the universe's names over "
                     "exchanged types and other action bodies (process-level memoisation or aliasing in the library would "
                     "carry over into the forked workers)")
    return INFO
