"""checks.families -- task lists (the enumerated dimensions) for the call-level checks."""
import random
from typing import List

from gen import programs as G
from ref.sexpr import render


def _mk(text, args, mode, label, **kw):
    t = dict(domain_text=text, action="act", args=list(args), objects=dict(G.OBJECTS), mode=mode, label=label)
    t.update(kw)
    return t


# Other object names: one is a proper prefix of another (o1 / o10), one carries a hyphen and an underscore.  Facts and fluents are
# compared, hashed and printed through their text, so a relation between NAMES is a dimension of its own.
OTHER_NAMES = {"o2": "o10", "o3": "o1-b_2"}


def with_other_names(task: dict) -> dict:
    t = dict(task)
    t["objects"] = {OTHER_NAMES.get(o, o): ty for o, ty in task["objects"].items()}
    t["args"] = [OTHER_NAMES.get(a, a) for a in task["args"]]
    t["label"] = "[objects o1 o10 o1-b_2] " + task["label"]
    return t


def without_objects(task: dict) -> dict:
    """a problem that declares no object at all: every individual is a domain constant (the object table is empty, not None)"""
    t = dict(task)
    t["objects"] = {}
    t["label"] = "[problem without objects] " + task["label"]
    return t


def with_undefined_fluent(task: dict) -> dict:
    """the state gives no value to (g) (and to (f o2) when the program mentions it): the library reads such fluents as 0"""
    t = dict(task)
    t["undefined_fluents"] = ["(g)", "(f o2)"]
    t["label"] = "[state without a value for (g), (f o2)] " + task["label"]
    return t


def with_state_route(task: dict, k: int) -> dict:
    t = dict(task)
    t["state_route"] = "trajectory" if k % 2 else "trajectory_without_problem"
    t["label"] = f"[state built by the {t['state_route'].replace('_', ' ')} parser] " + task["label"]
    return t


# a second action declared BEFORE the checked one: same parameter names in the other order, over other types, using the same
# predicates and functions -- nothing of it may leak into `act`
DECOY = ("aa", [("?y", "t3"), ("?x", "t2")], ["and", ["p", "?y"], ["s", "?x"], [">=", ["f", "?y"], "1"]],
         ["and", ["not", ["p", "?y"]], ["s", "?x"], ["increase", ["f", "?y"], "1"],
          ["forall", ["?z", "-", "t2"], ["when", ["s", "?z"], ["not", ["s", "?z"]]]]])


def pre_programs(tier: str, seed: int):
    """(plist, const, pre_tree, origin)"""
    out = [(pl, True, pre, "core") for pl, pre in G.core_preconditions()]
    n = 150 if tier == "quick" else 1500
    out += [(pl, c, t, "sampled") for pl, c, t in G.sampled_programs(seed * 7919 + 11, n, "pre")]
    out += [(pl, c, t, "deep") for pl, c, t in G.deep_programs(seed, 40 if tier == "quick" else 400)]
    return out


def eff_programs(tier: str, seed: int):
    out = [(pl, True, eff, "core") for pl, eff in G.core_effects()]
    n = 110 if tier == "quick" else 450
    out += [(pl, c, t, "sampled") for pl, c, t in G.sampled_programs(seed * 104729 + 5, n, "eff")]
    import random as _r
    rng = _r.Random(seed * 17 + 3)
    for _ in range(25 if tier == "quick" else 150):
        pl = rng.choice(["P2", "P2", "P1", "P3"])
        const = rng.random() < 0.5
        out.append((pl, const, G.deep_when_effect(rng, G.PARAM_LISTS[pl], const), "deep"))
    return out


def applicable_tasks(tier: str, seed: int, cap=None) -> List[dict]:
    cap = cap or (9 if tier == "quick" else 12)
    lim = 3 if tier == "quick" else 4
    tasks = []
    for pl, const, pre, origin in pre_programs(tier, seed):
        params = G.PARAM_LISTS[pl]
        text = G.domain_text([("act", params, pre, ["and"])], const=const)
        if const and params and all(t == "t1" for _, t in params) and (origin == "core" or len(tasks) % 4 == 0):
            # every argument is the constant and the problem declares no object
            tasks.append(without_objects(_mk(text, ["k"] * len(params), "applicable", render(pre), cap=cap, origin=origin, const=const)))
        for args in G.arg_tuples(params, const, limit=lim):
            tasks.append(_mk(text, args, "applicable", render(pre), cap=cap, origin=origin, const=const))
            if const and all(a == "k" for a in args) and (origin == "core" or len(tasks) % 3 == 0):
                tasks.append(without_objects(tasks[-1]))
            elif len(tasks) % (7 if tier == "quick" else 5) == 0:
                tasks.append(with_other_names(tasks[-1]))
            elif len(tasks) % 11 == 0:
                tasks.append(with_state_route(tasks[-1], len(tasks)))
            elif len(tasks) % 13 == 0:
                tasks.append(_mk(G.domain_text([DECOY, ("act", params, pre, ["and"])], const=const), args, "applicable",
                                 "[after a decoy action] " + render(pre), cap=cap, origin=origin, const=const))
    return tasks


def applicable_again_tasks(tier: str, seed: int, cap=None) -> List[dict]:
    """the verdict must be about the state asked about, whatever the operator object was asked before: programs with a
    numeric comparison, queried after a query on another state with the same facts and independent fluent values"""
    cap = cap or (8 if tier == "quick" else 10)
    tasks = []
    seen = 0
    for pl, const, pre, origin in pre_programs(tier, seed):
        text_pre = render(pre)
        if not any(k in text_pre for k in ("(f ", "(g)", "(h ")):
            continue
        seen += 1
        if seen % 4:
            continue
        params = G.PARAM_LISTS[pl]
        text = G.domain_text([("act", params, pre, ["and"])], const=const)
        for args in G.arg_tuples(params, const, limit=1 if tier == "quick" else 2):
            tasks.append(_mk(text, args, "applicable", "AGAIN " + text_pre, cap=cap, origin=origin, const=const,
                             after_other_state=True))
            if "(g)" in text_pre and len(tasks) % 2 == 0:
                tasks.append(with_undefined_fluent(tasks[-1]))
    return tasks


def apply_tasks(tier: str, seed: int, cap=None, orders=None) -> List[dict]:
    cap = cap or (8 if tier == "quick" else 11)
    lim = 3 if tier == "quick" else 4
    orders = orders if orders is not None else ([None, 1] if tier == "quick" else [None, 1, 2, 3])
    rng = random.Random(seed + 17)
    tasks = []
    for pl, const, eff, origin in eff_programs(tier, seed):
        params = G.PARAM_LISTS[pl]
        # half of the sampled programs get a (satisfiable-looking) precondition as well
        pre = ["and"]
        if origin == "sampled" and rng.random() < 0.5:
            pre = G.precondition(rng, params, const, {"numeric"} if rng.random() < 0.5 else set())
        text = G.domain_text([("act", params, pre, eff)], const=const)
        n_groups = render(eff).count("(when") + 1
        if const and params and all(t == "t1" for _, t in params) and (origin == "core" or len(tasks) % 4 == 0):
            tasks.append(without_objects(_mk(text, ["k"] * len(params), "apply", render(eff) + ("" if pre == ["and"] else "  PRE " + render(pre)),
                                             cap=cap, origin=origin, const=const, order=None, max_paths=1500 if tier == "quick" else 6000,
                                             timeout_ms=4000 if tier == "quick" else 20000)))
        for args in G.arg_tuples(params, const, limit=lim):
            for o in (orders if n_groups > 1 or len(eff) > 2 else orders[:1]):
                tasks.append(_mk(text, args, "apply", render(eff) + ("" if pre == ["and"] else "  PRE " + render(pre)),
                                 cap=cap, origin=origin, const=const, order=o,
                                 max_paths=1500 if tier == "quick" else 6000,
                                 timeout_ms=4000 if tier == "quick" else 20000))
                if const and all(a == "k" for a in args) and (origin == "core" or len(tasks) % 3 == 0):
                    tasks.append(without_objects(tasks[-1]))
                elif len(tasks) % (7 if tier == "quick" else 5) == 0:
                    tasks.append(with_other_names(tasks[-1]))
                elif len(tasks) % 11 == 0:
                    tasks.append(with_state_route(tasks[-1], len(tasks)))
                elif len(tasks) % 13 == 0:
                    tasks.append(dict(tasks[-1], domain_text=G.domain_text([DECOY, ("act", params, pre, eff)], const=const),
                                      label="[after a decoy action] " + tasks[-1]["label"]))
                elif len(tasks) % 17 == 0 and "(g)" in render(eff):
                    tasks.append(with_undefined_fluent(tasks[-1]))
    return tasks


def reapply_tasks(tier: str, seed: int, cap=None) -> List[dict]:
    """the same Operator object applied twice in a row (the second time to the state it has just returned); oracle =
    the call semantics composed with itself.  Programs with a numeric effect (whose right-hand sides, conditions and
    universally quantified effects must be read from the second pre-state, not from anything the operator kept)."""
    cap = cap or (8 if tier == "quick" else 10)
    tasks = []
    seen = 0
    for pl, const, eff, origin in eff_programs(tier, seed):
        text_eff = render(eff)
        if not any(k in text_eff for k in ("(increase", "(decrease", "(assign")):
            continue
        seen += 1
        if tier == "quick" and seen % 3:
            continue
        params = G.PARAM_LISTS[pl]
        text = G.domain_text([("act", params, ["and"], eff)], const=const)
        for args in G.arg_tuples(params, const, limit=1 if tier == "quick" else 2):
            tasks.append(_mk(text, args, "reapply", "TWICE " + text_eff, cap=cap, origin=origin, const=const, order=None,
                             max_paths=1500 if tier == "quick" else 4000, timeout_ms=4000 if tier == "quick" else 20000))
            if "(g)" in text_eff and len(tasks) % 2 == 0:
                tasks.append(with_undefined_fluent(tasks[-1]))
            elif "(g)" in text_eff:
                # applied once, after the same operator object was applied to a state that defines every fluent
                tasks.append(with_undefined_fluent(dict(tasks[-1], mode="apply", after_other_state=True,
                                                        label="AFTER ANOTHER STATE " + text_eff)))
    return tasks
