"""checks.lib -- adapters between the harnesses and the *real* library in /repo.

Nothing here re-implements library behaviour: domains are parsed by the library's
DomainParser from text, ground facts/fluents are built by the library's ProblemParser
methods, states are the library's State objects.  The only synthetic parts are the proxy
values placed *inside* those objects (symbolic fluent values; symbolic choice of which facts
are members) and the C-boundary shims of symx.shims.
"""
import logging
import os
import sys
import tempfile
from fractions import Fraction
from pathlib import Path
from typing import Dict, List, Optional, Tuple

REPO = os.environ.get("VERIF_REPO", "/repo")
if REPO not in sys.path:
    sys.path.insert(0, REPO)

logging.disable(logging.CRITICAL)  # arguments of log calls are still evaluated

import z3  # noqa: E402

from ref import sexpr  # noqa: E402
from symx.core import Ctx, SymBool, SymReal, MathShim  # noqa: E402

_TMP = None


def tmpdir() -> str:
    global _TMP
    if _TMP is None or not os.path.isdir(_TMP):
        base = "/dev/shm" if os.path.isdir("/dev/shm") else None
        _TMP = tempfile.mkdtemp(prefix="verif_", dir=base)
        import atexit
        import shutil

        atexit.register(lambda d=_TMP: shutil.rmtree(d, ignore_errors=True))
    return _TMP


_N = [0]


def write_tmp(text: str, suffix=".pddl") -> Path:
    _N[0] += 1
    p = Path(tmpdir()) / f"f{os.getpid()}_{_N[0]}{suffix}"
    p.write_text(text)
    return p


def install_math_shim():
    """numerical_expression's comparison lambdas look up the module global `math`."""
    from pddl_plus_parser.models import numerical_expression as ne

    if not isinstance(ne.math, MathShim):
        ne.math = MathShim()


def lib_eps() -> Fraction:
    """the CONFIGURED tolerance: the EPSILON environment setting (documented default 0.0001) -- read from the configuration, not
    from the library's module variable, so that a library that misreads its configuration disagrees with the oracle"""
    return Fraction(float(os.environ.get("EPSILON", 0.0001)))


def parse_domain(text: str, **kw):
    from pddl_plus_parser.lisp_parsers import DomainParser

    p = write_tmp(text)
    try:
        return DomainParser(p, **kw).parse_domain()
    finally:
        try:
            p.unlink()
        except OSError:
            pass


def parse_problem(text: str, domain):
    from pddl_plus_parser.lisp_parsers import ProblemParser

    p = write_tmp(text)
    try:
        return ProblemParser(p, domain).parse_problem()
    finally:
        try:
            p.unlink()
        except OSError:
            pass


_AST = {}
_MODELS = []


def _ast(name: str):
    a = _AST.get(name)
    if a is None:
        a = sexpr.read(name)
        _AST[name] = a
    return list(a)


def _models():
    if not _MODELS:
        import pddl_plus_parser.models as m
        _MODELS.append(m)
    return _MODELS[0]


_NORM = {}


def norm(s: str) -> str:
    r = _NORM.get(s)
    if r is None:
        r = _norm(s)
        if len(_NORM) < 100000:
            _NORM[s] = r
    return r


def _norm(s: str) -> str:
    """canonical text of a printed atom/fluent: '(r )' -> '(r)'"""
    return sexpr.render(sexpr.read(s))


class World:
    """A parsed domain + the library's own ground objects for a universe."""

    def __init__(self, domain_text: str, objects: Dict[str, str], domain=None):
        from pddl_plus_parser.lisp_parsers import ProblemParser
        from pddl_plus_parser.models import PDDLObject

        self.domain_text = domain_text
        self.domain = domain if domain is not None else parse_domain(domain_text)
        self.objects_decl = dict(objects)
        pp = ProblemParser.__new__(ProblemParser)
        pp.domain = self.domain
        pp.logger = logging.getLogger("verif")
        from pddl_plus_parser.models import Problem

        pp.problem = Problem(self.domain)
        objs_ast = []
        for o, t in objects.items():
            objs_ast += [o, "-", t]
        pp.problem.objects = pp.parse_objects(objs_ast)
        self.pp = pp
        self.problem = pp.problem
        self.objects = pp.problem.objects

    def ground_atom(self, name: str):
        """name: '(q o1 o2)' -> the library's GroundedPredicate (built by its problem parser)"""
        ast = _ast(name)
        lifted = self.domain.predicates[ast[0]]
        return self.pp.parse_grounded_predicate(ast, lifted), lifted.untyped_representation

    def ground_fluent(self, name: str):
        ast = _ast(name)
        return self.pp.parse_grounded_numeric_fluent(ast)

    def make_state(self, atoms: Dict[str, object], fluents: Dict[str, object], is_init=False):
        """atoms: name -> bool | SymBool (decided here, in the current path);
        fluents: name -> number | SymReal.  Returns (State, key_of_fluent: name -> state key)."""
        from collections import defaultdict
        State = _models().State

        preds = defaultdict(set)
        for name, member in atoms.items():
            if member:  # SymBool: a solver-decided fork
                gp, key = self.ground_atom(name)
                preds[key].add(gp)
        fl = {}
        keys = {}
        for name, val in fluents.items():
            f = self.ground_fluent(name)
            f.set_value(val)
            fl[f.untyped_representation] = f
            keys[name] = f.untyped_representation
        return State(predicates=preds, fluents=fl, is_init=is_init), keys


def state_atoms(state) -> set:
    out = set()
    for preds in state.state_predicates.values():
        for p in preds:
            out.add(norm(p.untyped_representation))
    return out


def is_refusal(e: BaseException) -> bool:
    """An inapplicable action is 'refused - an error': any exception type counts (the library raises ValueError today; a
    dedicated exception class would be as good), except the TypeError/AttributeError that an unmodelled operation on one
    of the symbolic proxies produces -- that one must reach the path driver and make the task inconclusive."""
    if isinstance(e, (TypeError, AttributeError)) and any(n in str(e) for n in ("SymBool", "SymReal", "SymStr", "SymChar", "FinStr")):
        return False
    return isinstance(e, Exception)


def fluent_name(f) -> str:
    """'(name arg ...)' of a grounded fluent as the library prints it in a state, i.e. with repeated arguments repeated
    (PDDLFunction.untyped_representation is documented as the lifted form and prints each argument name once)"""
    rep = f.state_representation  # "(= (name args) value)"
    return norm(rep[3:rep.rindex(" ")])


def via_trajectory_parser(world, state, with_problem=True):
    """rebuild every fact and every fluent of `state` the way TrajectoryParser builds them: given the problem (facts and
    fluents annotated with the objects' own types) or without it (annotated with the declared parameter types)"""
    from pddl_plus_parser.lisp_parsers import TrajectoryParser
    parser = TrajectoryParser(world.domain, world.problem if with_problem else None)
    for key, facts in list(state.state_predicates.items()):
        state.state_predicates[key] = {
            parser.parse_grounded_predicate(_ast(gp.untyped_representation), world.domain.predicates[gp.name]) for gp in facts}
    rebuilt = {}
    for key, fl in state.state_fluents.items():
        nf = parser.parse_grounded_numeric_fluent(_ast(fluent_name(fl)))
        nf.set_value(fl.value)
        rebuilt[nf.untyped_representation] = nf
    state.state_fluents.clear()
    state.state_fluents.update(rebuilt)
    return state


def state_digest(state):
    """(frozenset of atoms, dict key -> value object) without forcing symbolic values."""
    return state_atoms(state), {k: f.value for k, f in state.state_fluents.items()}


def universe_atoms(predicates, objects: Dict[str, str], consts: Dict[str, str], is_subtype) -> List[str]:
    import itertools

    allo = dict(consts)
    allo.update(objects)
    out = []
    for name, sig in predicates.items():
        doms = [[o for o, t in allo.items() if is_subtype(t, pt)] for _, pt in sig]
        for tup in itertools.product(*doms):
            out.append("(" + " ".join([name] + list(tup)) + ")")
    return out


def to_float(fr: Fraction) -> float:
    return fr.numerator / fr.denominator
