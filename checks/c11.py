"""C11 -- the S-expression reader returns the text's parenthesis structure, all of it.

Bounded symbolic execution of the real PDDLTokenizer (constructor in string and file mode,
tokenize, read_from_tokens, parse) on strings of symbolic ASCII characters (symx.text.SymStr) and
on token lists of symbolic kind, against the independent reader ref.sexpr executed on the same
symbolic input.  (a) character level: the token list equals the reference token list for every
ASCII string up to the length bound; (b) token level: read_from_tokens returns the tree whose
flattening is exactly the input, or raises; (c) parse() end to end on a restricted alphabet.
"""
import itertools
import json
import os
import random
import time

import z3

from . import lib, runner
from ref import sexpr
from symx import core, rex, text
from symx.core import Ctx, SymBool, Stats, explore, Inconclusive, Unsupported, PathLimit
from symx.text import SymStr, SymChar

CLASSES = {
    "tab": [9], "lf": [10], "cr": [13], "ws": [11, 12, 28, 29, 30, 31, 32], "semi": [59], "lp": [40], "rp": [41],
    "upper": list(range(65, 91)),
}
_special = set(c for v in CLASSES.values() for c in v)
CLASSES["other"] = [c for c in range(128) if c not in _special]


def class_constraint(v, name):
    codes = CLASSES[name]
    # contiguous ranges are cheaper
    return z3.Or([v == c for c in codes]) if len(codes) <= 8 else (
        z3.And(v >= 65, v <= 90) if name == "upper" else z3.And(v >= 0, v <= 127, z3.Not(z3.Or(
            [v == c for c in sorted(_special - set(range(65, 91)))] + [z3.And(v >= 65, v <= 90)]))))


# ---------------------------------------------------------------------------------------------
# the reference, generic over SymChar (independent of the library)
# ---------------------------------------------------------------------------------------------
def ref_universal_newlines(cs):
    out = []
    i = 0
    while i < len(cs):
        c = cs[i]
        if c.is_(13):
            out.append(SymChar(10))
            if i + 1 < len(cs) and cs[i + 1].is_(10):
                i += 1
        else:
            out.append(c)
        i += 1
    return out


def ref_tokens(s: SymStr, file_mode: bool):
    cs = list(s.cs)
    if file_mode:
        cs = ref_universal_newlines(cs)
    toks, cur, in_comment = [], [], False
    for c in cs:
        if in_comment:
            if c.is_(10):
                in_comment = False
            continue
        if c.is_(59):
            if cur:
                toks.append(SymStr(cur))
                cur = []
            in_comment = True
        elif c.is_(40) or c.is_(41):
            if cur:
                toks.append(SymStr(cur))
                cur = []
            toks.append(SymStr([c]))
        elif c.isspace():
            if cur:
                toks.append(SymStr(cur))
                cur = []
        else:
            cur.append(c.lower())
    if cur:
        toks.append(SymStr(cur))
    return toks


class RefErr(Exception):
    pass


def ref_read(toks):
    pos = [0]

    def form():
        if pos[0] >= len(toks):
            raise RefErr("eof")
        t = toks[pos[0]]
        pos[0] += 1
        if t == "(":
            out = []
            while True:
                if pos[0] >= len(toks):
                    raise RefErr("missing )")
                if toks[pos[0]] == ")":
                    pos[0] += 1
                    return out
                out.append(form())
        if t == ")":
            raise RefErr("unexpected )")
        return t

    tree = form()
    if pos[0] != len(toks):
        raise RefErr("trailing tokens")
    return tree


def flatten(tree):
    if not isinstance(tree, list):
        return [tree]
    out = ["("]
    for t in tree:
        out.extend(flatten(t))
    out.append(")")
    return out


def same_tokens(a, b) -> z3.BoolRef:
    if len(a) != len(b):
        return z3.BoolVal(False)
    parts = []
    for x, y in zip(a, b):
        xs = x if isinstance(x, SymStr) else SymStr.of(x)
        parts.append(xs.eqz(y))
    return z3.And(parts) if parts else z3.BoolVal(True)


# ---------------------------------------------------------------------------------------------
# library under shims
# ---------------------------------------------------------------------------------------------
def lib_tokenizer(s, file_mode: bool):
    import pddl_plus_parser.lisp_parsers.pddl_tokenizer as pt
    rex.install(pt, _REX)
    if file_mode:
        files = {"/sym/input.pddl": s}
        pt.open = text.make_open(files)
        try:
            return pt.PDDLTokenizer(file_path="/sym/input.pddl")
        finally:
            del pt.open
    return pt.PDDLTokenizer(pddl_str=s)


_REX = rex.module()


def concrete_lib(textv: str, file_mode: bool, what: str):
    """the real library, no shims"""
    import re as real_re
    import pddl_plus_parser.lisp_parsers.pddl_tokenizer as pt
    rex.uninstall(pt)
    try:
        if file_mode:
            p = lib.write_tmp("", ".pddl")
            with open(p, "wb") as f:
                f.write(textv.encode("ascii"))
            tk = pt.PDDLTokenizer(file_path=p)
        else:
            tk = pt.PDDLTokenizer(pddl_str=textv)
        if what == "tokens":
            return ("ok", list(tk.tokenize()))
        return ("ok", tk.parse())
    except Exception as e:  # noqa
        return ("exc", f"{type(e).__name__}: {e}")
    finally:
        rex.install(pt, _REX)


def concrete_ref(textv: str, file_mode: bool, what: str):
    t = sexpr.universal_newlines(textv) if file_mode else textv
    toks = sexpr.tokens(t)
    if what == "tokens":
        return ("ok", toks)
    try:
        return ("ok", sexpr.read_tokens(toks))
    except sexpr.ReadError as e:
        return ("exc", str(e))


def disagree_concrete(textv, file_mode, what):
    a = concrete_lib(textv, file_mode, what)
    b = concrete_ref(textv, file_mode, what)
    if a[0] != b[0]:
        return True, a, b
    if a[0] == "ok" and a[1] != b[1]:
        return True, a, b
    return False, a, b


# ---------------------------------------------------------------------------------------------
# tasks
# ---------------------------------------------------------------------------------------------
def run_char_task(task):
    n, file_mode, what = task["n"], task["file_mode"], task["what"]
    prefix = task.get("prefix", [])
    alphabet = task.get("alphabet")
    vs = [z3.Int(f"c{i}") for i in range(n)]
    res = {"task": task, "outcome": "held", "paths": 0, "cex": None, "obligations": 0}
    stats = Stats()

    def fn(ctx: Ctx):
        cons = []
        for i, v in enumerate(vs):
            if alphabet is not None:
                if i == 0 and "first" in task:
                    cons.append(v == task["first"])
                else:
                    cons.append(z3.Or([v == c for c in alphabet]))
            elif i < len(prefix):
                cons.append(class_constraint(v, prefix[i]))
            else:
                cons.append(z3.And(v >= 0, v <= 127))
        if not ctx.assume(z3.And(cons) if cons else z3.BoolVal(True)):
            return None
        s = SymStr([SymChar(v) for v in vs])
        tk = lib_tokenizer(s, file_mode)
        if what == "tokens":
            got = ("ok", list(tk.tokenize()))
        else:
            try:
                got = ("ok", tk.parse())
            except (SyntaxError, IndexError, ValueError) as e:
                got = ("exc", e)
        exp_toks = ref_tokens(s, file_mode)
        if what == "tokens":
            return got, ("ok", exp_toks)
        try:
            exp = ("ok", ref_read(exp_toks))
        except RefErr as e:
            exp = ("exc", e)
        return got, exp

    def on_path(ctx: Ctx, pr):
        if pr.kind == "exc":
            _cex(ctx, res, vs, file_mode, what, f"library raised {type(pr.value).__name__}: {pr.value}", z3.BoolVal(True))
            return
        if pr.value is None:
            return
        got, exp = pr.value
        res["obligations"] += 1
        if got[0] != exp[0]:
            _cex(ctx, res, vs, file_mode, what, f"library {got[0]} but reference {exp[0]}", z3.BoolVal(True))
            return
        if got[0] == "exc":
            return
        a = got[1] if what == "tokens" else flatten(got[1])
        b = exp[1] if what == "tokens" else flatten(exp[1])
        post = same_tokens(a, b)
        m = ctx.valid(post)
        if m is not None:
            _cex(ctx, res, vs, file_mode, what, "token lists differ", z3.Not(post))

    try:
        explore(fn, on_path, stats=stats, max_paths=task.get("max_paths", 200000), timeout_ms=10000,
                catch=(Exception,))
    except Inconclusive as e:
        res["outcome"], res["detail"] = "inconclusive", str(e)
    except (Unsupported, PathLimit) as e:
        res["outcome"], res["detail"] = "inconclusive", f"{type(e).__name__}: {e}"
        if isinstance(e, Unsupported) and res["cex"] is None:
            _concrete_fallback(res, n, file_mode, what)
    except Exception as e:  # noqa
        import traceback
        res["outcome"], res["detail"] = "error", f"{type(e).__name__}: {e} {traceback.format_exc()[-800:]}"
    res["paths"] = stats.paths
    res["stats"] = stats.as_dict()
    return res


FALLBACK_ALPHABET = "()aB;\n \t"


def _concrete_fallback(res, n, file_mode, what):
    """the library reached an operation the symbolic strings do not model: the task stays inconclusive (nothing is claimed for
    all strings), but every string of its length over a small alphabet is still run concretely against the reference, so that
    a wrong answer is reported as such instead of hiding behind the harness limitation"""
    if n > 5:
        return
    for tup in itertools.product(FALLBACK_ALPHABET, repeat=n):
        t = "".join(tup)
        bad, a, b = disagree_concrete(t, file_mode, what)
        if bad:
            res["outcome"] = "violation"
            res["cex"] = {"what": "token lists differ (concrete fallback: the library's code path is not modelled symbolically)",
                          "text": t, "file_mode": file_mode, "kind": what, "library": str(a), "reference": str(b)}
            return
    res["detail"] += f"; concrete fallback: all {len(FALLBACK_ALPHABET) ** n} strings of length {n} over {FALLBACK_ALPHABET!r} agree"


def _cex(ctx, res, vs, file_mode, what, desc, neg):
    if res["outcome"] == "violation":
        return
    # prefer printable witnesses
    model = None
    for cons in ([z3.Or(z3.And(v >= 32, v <= 126), v == 9, v == 10) for v in vs], []):
        if ctx.check(neg, *cons) == "sat":
            model = ctx.solver.model()
            break
    if model is None:
        return
    textv = "".join(chr(model.eval(v, model_completion=True).as_long()) for v in vs)
    dis, a, b = disagree_concrete(textv, file_mode, what)
    if dis:
        res["outcome"] = "violation"
        res["cex"] = {"what": desc, "text": textv, "file_mode": file_mode, "kind": what, "library": str(a), "reference": str(b)}
    else:
        res["unconfirmed"] = res.get("unconfirmed", 0) + 1


def run_token_task(task):
    """read_from_tokens on n tokens of symbolic kind ('(' , ')' or an atom)."""
    from collections import deque
    n = task["n"]
    vs = [z3.Int(f"t{i}") for i in range(n)]
    res = {"task": task, "outcome": "held", "paths": 0, "cex": None, "obligations": 0}
    stats = Stats()

    def fn(ctx: Ctx):
        if not ctx.assume(z3.And([z3.Or(v == 40, v == 41, v == 97) for v in vs] + [z3.BoolVal(True)])):
            return None
        toks = [SymStr([SymChar(v)]) for v in vs]
        tk = lib_tokenizer("()", False)
        try:
            d = deque(toks)
            tree = tk.read_from_tokens(d)
            got = ("ok", tree, len(d))
        except (SyntaxError, IndexError) as e:
            got = ("exc", e, 0)
        try:
            exp = ("ok", ref_read(toks))
        except RefErr as e:
            exp = ("exc", e)
        return toks, got, exp

    def on_path(ctx: Ctx, pr):
        if pr.kind == "exc":
            _tok_cex(ctx, res, vs, f"library raised {type(pr.value).__name__}: {pr.value}")
            return
        if pr.value is None:
            return
        toks, got, exp = pr.value
        res["obligations"] += 1
        # read_from_tokens alone may leave a tail (parse() must reject it); what it returns must be
        # the tree of the consumed prefix -- and when the reference accepts the whole list, all of it
        if got[0] == "ok":
            consumed = len(toks) - got[2]
            post = same_tokens(flatten(got[1]), toks[:consumed])
            if ctx.valid(post) is not None:
                _tok_cex(ctx, res, vs, "returned tree is not the consumed prefix")
                return
            if exp[0] == "ok" and got[2] != 0:
                _tok_cex(ctx, res, vs, "reference consumed everything, library left a tail")
        else:
            if exp[0] == "ok":
                _tok_cex(ctx, res, vs, "library raised on a well-formed token list")

    try:
        explore(fn, on_path, stats=stats, max_paths=200000, timeout_ms=10000)
    except Inconclusive as e:
        res["outcome"], res["detail"] = "inconclusive", str(e)
    except (Unsupported, PathLimit) as e:
        res["outcome"], res["detail"] = "inconclusive", f"{type(e).__name__}: {e}"
    except Exception as e:  # noqa
        import traceback
        res["outcome"], res["detail"] = "error", f"{type(e).__name__}: {e} {traceback.format_exc()[-800:]}"
    res["paths"] = stats.paths
    res["stats"] = stats.as_dict()
    return res


def _tok_cex(ctx, res, vs, desc):
    if res["outcome"] == "violation":
        return
    if ctx.check() != "sat":
        return
    m = ctx.solver.model()
    toks = [chr(m.eval(v, model_completion=True).as_long()) for v in vs]
    # replay: the real read_from_tokens on concrete tokens
    from collections import deque
    import pddl_plus_parser.lisp_parsers.pddl_tokenizer as pt
    tk = pt.PDDLTokenizer(pddl_str="()")
    d = deque(toks)
    try:
        tree = tk.read_from_tokens(d)
        got = ("ok", tree, len(d))
    except (SyntaxError, IndexError) as e:
        got = ("exc", str(e), 0)
    try:
        exp = ("ok", sexpr.read_tokens(toks))
    except sexpr.ReadError as e:
        exp = ("exc", str(e))
    bad = False
    if got[0] == "ok":
        consumed = len(toks) - got[2]
        if sexpr.flatten(got[1]) != toks[:consumed] or (exp[0] == "ok" and got[2] != 0):
            bad = True
    elif exp[0] == "ok":
        bad = True
    if bad:
        res["outcome"] = "violation"
        res["cex"] = {"what": desc, "tokens": toks, "library": str(got), "reference": str(exp), "kind": "read_from_tokens"}
    else:
        res["unconfirmed"] = res.get("unconfirmed", 0) + 1


def self_validate(seed) -> list:
    """the encoding must agree with str/re on concrete inputs (repo test strings + random)"""
    errs = []
    rnd = random.Random(seed + 99)
    samples = ["(and (p ?x) (not (q ?x ?y)))", "(define (domain d)\n (:types a b - object) ; comment\n)",
               "(= (fuel ?t) 10.5)\t(x)", "(exists (?x - t) (p ?x))", ";only comment", "", "A b\r\nC;d\re"]
    alpha = "()ab;A \t\n\r\x0b\x1c0-?"
    for _ in range(300):
        samples.append("".join(rnd.choice(alpha) for _ in range(rnd.randint(0, 12))))
    for t in samples:
        for fm in (False, True):
            real = concrete_lib(t, fm, "tokens")
            holder = {}

            def fn(ctx, t=t, fm=fm):
                return [x.concrete() if isinstance(x, SymStr) else x for x in lib_tokenizer(SymStr.of(t), fm).tokenize()]

            def on_path(ctx, pr):
                holder["r"] = pr

            explore(fn, on_path)
            pr = holder["r"]
            if pr.kind != "ok" or real[0] != "ok" or pr.value != real[1]:
                errs.append(f"shim fidelity: {t!r} file_mode={fm}: real {real} vs shimmed {pr.kind}:{pr.value}")
            r1 = [x.concrete() for x in _concrete_ref_tokens(t, fm)]
            r2 = concrete_ref(t, fm, "tokens")[1]
            if r1 != r2:
                errs.append(f"reference self-consistency: {t!r} file_mode={fm}: {r1} vs {r2}")
    return errs[:5]


def _concrete_ref_tokens(t, fm):
    holder = {}
    explore(lambda ctx: ref_tokens(SymStr.of(t), fm), lambda ctx, pr: holder.setdefault("r", pr.value))
    return holder["r"]


def main(tier: str) -> int:
    rep = runner.Report("C11", tier, "other")
    try:
        for e in self_validate(runner.seed()):
            rep.errors.append("self-validation: " + e)
    except (Exception, Unsupported, Inconclusive, PathLimit) as e:  # noqa -- harness error, but the run goes on
        rep.errors.append(f"self-validation stopped: {type(e).__name__}: {e}")
    tasks = []
    names = list(CLASSES)
    nchar = 4 if tier == "quick" else 5
    for fm in (False, True):
        for n in range(0, nchar):
            tasks.append({"kind": "char", "n": n, "file_mode": fm, "what": "tokens"})
        # full length, split by the classes of the first two characters (parallel)
        for pre in itertools.product(names, repeat=2):
            tasks.append({"kind": "char", "n": nchar, "file_mode": fm, "what": "tokens", "prefix": list(pre)})
    # (c) parse() end to end on the alphabet ( ) a ; \n space [tab]
    alpha = [40, 41, 97, 59, 10, 32, 9]
    nparse = 5 if tier == "quick" else 6
    for fm in (False, True):
        for n in range(0, nparse + 1):
            if n == nparse:
                for first in alpha:
                    tasks.append({"kind": "char", "n": n, "file_mode": fm, "what": "parse", "alphabet": alpha,
                                  "first": first})
            else:
                tasks.append({"kind": "char", "n": n, "file_mode": fm, "what": "parse", "alphabet": alpha})
    # (b) token level
    ntok = 7 if tier == "quick" else 10
    for n in range(0, ntok + 1):
        tasks.append({"kind": "tok", "n": n})
    # (b') concrete token lists with multi-character atoms
    lists = well_formed_token_lists(9 if tier == "quick" else 10)
    chunk = max(1, len(lists) // 32 + 1)
    for i in range(0, len(lists), chunk):
        tasks.append({"kind": "tok_concrete", "chunk": i // chunk, "lists": lists[i:i + chunk]})
    # (d) long inputs (concrete)
    nlong, shifts = (500, 12) if tier == "quick" else (4500, 40)
    for sh in range(shifts):
        tasks.append({"kind": "long_concrete", "n": nlong, "shift": sh})
    results = runner.pmap(_dispatch, tasks)
    from collections import Counter
    c = Counter()
    paths = obligations = 0
    agg = Counter()
    solver_s = 0.0
    samples = []
    nontrivial = 0
    unconfirmed = 0
    known = runner.load_known("C11")
    for t, r in zip(tasks, results):
        c[r["outcome"]] += 1
        paths += r["paths"]
        obligations += r["obligations"]
        unconfirmed += r.get("unconfirmed", 0)
        st = r.get("stats") or {}
        for k in runner.STAT_KEYS:
            agg[k] += st.get(k, 0)
        solver_s += st.get("solver_seconds", 0.0)
        if r["paths"] >= 2:
            nontrivial += 1
        if t["kind"] == "tok_concrete":
            t = r["task"]  # without the token lists themselves
        if r["outcome"] == "violation":
            rep.violation(f"{t}: {r['cex']['what']}: {r['cex'].get('text', r['cex'].get('tokens'))!r} -> library "
                          f"{r['cex']['library']} reference {r['cex']['reference']}",
                          {"property": "C11", "kind": "c11", "task": t, "cex": r["cex"]})
        elif r["outcome"] == "inconclusive":
            rep.inconclusive.append(f"{t}: {r.get('detail')}")
        elif r["outcome"] == "error":
            rep.errors.append(f"{t}: {r.get('detail')}")
        elif len(samples) < 4 and r["paths"] > 20:
            samples.append({"task": t, "paths": r["paths"], "obligations": r["obligations"],
                            "obligation": "pc /\\ not(library tokens == reference tokens) unsat; one path = one class "
                                          "skeleton of the input string"})
    q = dict(agg)
    q["solver_seconds"] = round(solver_s, 2)
    # vacuity twin: a deliberately wrong reference (comments not stripped) must be refuted
    try:
        tw = _twin()
    except (Exception, Unsupported, Inconclusive, PathLimit) as e:  # noqa
        tw = False
        rep.errors.append(f"vacuity twin stopped: {type(e).__name__}: {e}")
    if not tw:
        rep.twins_failed.append("vacuity twin (reference that keeps comments) was not refuted")
    rep.coverage.update({
        "evaluations": len(tasks), "distinct_nontrivial": nontrivial,
        "rule": "one evaluation = one (constructor mode, length, first-character classes | alphabet | token count) explored "
                "over all feasible paths; every character is a symbolic ASCII code point, so the evaluation covers all "
                "strings of that length; non-trivial = >=2 paths",
        "samples": samples or [{"note": "none"}], "outcomes": dict(c), "paths": paths, "obligations": obligations,
        "queries": q, "unconfirmed_counterexamples": unconfirmed, "vacuity_twin_refuted": tw,
        "exhaustive": True,
        "bounds": {"char_level": f"all ASCII strings of length <= {nchar}, string and file constructor",
                   "parse_end_to_end": f"all strings of length <= {nparse} over ( ) a ; LF space TAB, both constructors",
                   "token_level": f"all token lists of length <= {ntok} over '(' ')' atom (one-character tokens, symbolic)",
                   "token_level_concrete": f"every well-formed token list of <= {9 if tier == 'quick' else 10} tokens over the atoms "
                                           f"a, b, ab: {len(lists)} lists run concretely against the reference tree",
                   "long_inputs_concrete": f"{shifts} texts of {len(long_text(nlong, 0))}+ characters ({nlong} lines, 0..{shifts - 1} leading "
                                           f"blanks), file and string constructor, run concretely against the reference reader",
                   "outside": "non-ASCII text, encoding errors of open(); symbolic claims end at the stated lengths; composition tokenizer o reader "
                              "beyond the end-to-end bound is argued, not mechanised"},
        "functions_executed_symbolically": ["PDDLTokenizer.__init__ (pddl_str and file_path)", "PDDLTokenizer._is_comment_line",
                                            "PDDLTokenizer.tokenize", "PDDLTokenizer.read_from_tokens", "PDDLTokenizer.parse"],
        "shims": ["re -> symx.rex (backtracking matcher over the pattern found in the module)",
                  "open -> in-memory file over SymStr with universal-newline translation",
                  "str methods -> symx.text.SymStr (replace, split, strip, startswith, lower)"],
    })
    rep.assumptions += ["ASCII input", "SymStr/rex models of str and re (validated differentially at start-up against the real "
                                       "str/re on 300+ concrete inputs)", "ref.sexpr as the meaning of 'parenthesis structure'"]
    return rep.finish(total=len(tasks))


MULTI_ATOMS = ["a", "b", "ab"]  # atoms of which one is the concatenation of the others


def well_formed_token_lists(max_len):
    """every token list of at most max_len tokens that is exactly one parenthesised form over MULTI_ATOMS"""
    out = []

    def items(budget):
        """all sequences of forms using at most `budget` tokens"""
        yield []
        if budget <= 0:
            return
        for first in forms(budget):
            for rest in items(budget - len(first)):
                yield first + rest

    def forms(budget):
        if budget >= 1:
            for a in MULTI_ATOMS:
                yield [a]
        if budget >= 2:
            for inner in items(budget - 2):
                yield ["("] + inner + [")"]

    for f in forms(max_len):
        if f[0] == "(":
            out.append(f)
    return out


def run_concrete_trees(task):
    """(b') the tree builder on concrete token lists whose atoms have several characters: plain exhaustive differential
    run (no symbolic dimension: the symbolic token tasks use one-character tokens, which cannot collide by concatenation)"""
    from collections import deque
    import pddl_plus_parser.lisp_parsers.pddl_tokenizer as pt
    res = {"task": {"kind": "tok_concrete", "chunk": task["chunk"]}, "outcome": "held", "paths": 0, "obligations": 0, "cex": None}
    tk = pt.PDDLTokenizer(pddl_str="()")
    for toks in task["lists"]:
        res["paths"] += 1
        res["obligations"] += 1
        exp = sexpr.read_tokens(list(toks))
        try:
            d = deque(toks)
            got = tk.read_from_tokens(d)
            ok = got == exp and len(d) == 0
            shown = str(got)
        except Exception as e:  # noqa
            ok, shown = False, f"{type(e).__name__}: {e}"
        if not ok:
            res["outcome"] = "violation"
            res["cex"] = {"what": "tree differs from the token structure", "tokens": list(toks), "library": shown,
                          "reference": str(exp), "kind": "read_from_tokens_concrete"}
            break
    return res


def long_text(n, shift):
    """a long, ordinary-looking text: n lines of '(link node-0001 n3) ; note 1 (x', each line a list followed by a comment
    that contains a parenthesis, preceded by `shift` blanks so that every alignment of a size boundary (a read block, a
    buffer) with a token, a parenthesis, a comment and a line break occurs for some shift"""
    body = "".join(f"(link node-{i:04d} n{i % 7}) ; note {i} (x\n" if i % 3 else f"(Link node-{i:04d}\t(n{i % 7} n{i % 5}))\n" for i in range(n))
    return " " * shift + "(define (domain long)\n" + body + ")\n"


def run_long_concrete(task):
    """(d) inputs far longer than the symbolic bound, run concretely through both constructors against the reference reader:
    the symbolic tasks cover every string up to a handful of characters, but not mechanisms that depend on the SIZE of the
    input (block-wise reading, buffers)"""
    res = {"task": dict(task), "outcome": "held", "paths": 0, "obligations": 0, "cex": None}
    t = long_text(task["n"], task["shift"])
    for fm in (True, False):
        res["paths"] += 1
        res["obligations"] += 1
        bad, a, b = disagree_concrete(t, fm, "parse")
        if bad:
            fa, fb = str(a[1]), str(b[1])
            i = next((k for k in range(min(len(fa), len(fb))) if fa[k] != fb[k]), 0)
            res["outcome"] = "violation"
            res["cex"] = {"what": f"a text of {len(t)} characters is read differently from its parenthesis structure "
                                  f"({'file' if fm else 'string'} constructor)", "text": f"long_text({task['n']}, {task['shift']})",
                          "long": {"n": task["n"], "shift": task["shift"]}, "file_mode": fm, "kind": "parse",
                          "library": fa[max(0, i - 60): i + 60], "reference": fb[max(0, i - 60): i + 60]}
            break
    return res


def _dispatch(task):
    if task["kind"] == "long_concrete":
        return run_long_concrete(task)
    if task["kind"] == "tok":
        return run_token_task(task)
    if task["kind"] == "tok_concrete":
        return run_concrete_trees(task)
    return run_char_task(task)


def _twin() -> bool:
    found = []

    def fn(ctx):
        vs = [z3.Int(f"c{i}") for i in range(3)]
        ctx.assume(z3.And([z3.And(v >= 32, v <= 126) for v in vs]))
        s = SymStr([SymChar(v) for v in vs])
        got = list(lib_tokenizer(s, False).tokenize())
        wrong = []  # a "reference" that does not know about comments
        cur = []
        for ch in s.cs:
            if ch.is_(40) or ch.is_(41):
                if cur:
                    wrong.append(SymStr(cur))
                    cur = []
                wrong.append(SymStr([ch]))
            elif ch.isspace():
                if cur:
                    wrong.append(SymStr(cur))
                    cur = []
            else:
                cur.append(ch.lower())
        if cur:
            wrong.append(SymStr(cur))
        return vs, got, wrong

    def on_path(ctx, pr):
        vs, got, wrong = pr.value
        m = ctx.valid(same_tokens(got, wrong))
        if m is not None and not found:
            t = "".join(chr(m.eval(v, model_completion=True).as_long()) for v in vs)
            if ";" in t:
                found.append(t)

    explore(fn, on_path)
    return bool(found)


def replay(payload, path):
    cx = payload["cex"]
    if cx.get("kind") == "read_from_tokens":
        from collections import deque
        import pddl_plus_parser.lisp_parsers.pddl_tokenizer as pt
        toks = cx["tokens"]
        d = deque(toks)
        try:
            tree = pt.PDDLTokenizer(pddl_str="()").read_from_tokens(d)
            got = ("ok", tree, len(d))
        except (SyntaxError, IndexError) as e:
            got = ("exc", str(e), 0)
        try:
            exp = ("ok", sexpr.read_tokens(toks))
        except sexpr.ReadError as e:
            exp = ("exc", str(e))
        print("tokens", toks, "library", got, "reference", exp)
        bad = (got[0] == "ok" and (sexpr.flatten(got[1]) != toks[: len(toks) - got[2]] or (exp[0] == "ok" and got[2])))\
            or (got[0] != "ok" and exp[0] == "ok")
    elif cx.get("kind") == "read_from_tokens_concrete":
        r = run_concrete_trees({"chunk": 0, "lists": [cx["tokens"]]})
        print(r["outcome"], r.get("cex"))
        bad = r["outcome"] == "violation"
    elif cx.get("long"):
        bad, a, b = disagree_concrete(long_text(cx["long"]["n"], cx["long"]["shift"]), cx["file_mode"], cx["kind"])
        a, b = (a[0], str(a[1])[:300]), (b[0], str(b[1])[:300])
    else:
        bad, a, b = disagree_concrete(cx["text"], cx["file_mode"], cx["kind"])
        print(repr(cx["text"]), "library", a, "reference", b)
    if bad:
        print(f"VIOLATION property=C11 replay={path}")
        return 1
    print("does not reproduce")
    return 0
