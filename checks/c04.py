"""C04 -- a plan is turned into the trajectory that the transition function dictates.

Bounded symbolic execution of the real TrajectoryExporter.parse_plan / create_single_triplet / export
(and Operator.apply underneath) on a problem whose initial atoms and fluent values are symbolic; the
plan (a sequence of <=3 ground calls) and the allow-inapplicable switch are enumerated.  Valid and
invalid steps at every position arise from the symbolic initial state, not from enumeration.
Oracle: composition of ref.sem step semantics; a refused step leaves the state unchanged, an allowed
inapplicable step applies the effects anyway.  parse_action_call is executed on symbolic strings.
"""
import itertools
import json
import random
import traceback

import z3

from gen import programs as G
from symx.core import Ctx, Stats, explore, Inconclusive, Unsupported, PathLimit
from symx import rex
from symx.text import SymStr, SymChar
from . import lib, runner, callsym, seqsem, families

_REX = rex.module()

ITEMS = ["o1", "o2", "o3"]


def _objects(task):
    """the object table of a task: the universe's, or the same with other names (one a proper prefix of another, one with a
    hyphen and an underscore) when the task says so"""
    if task.get("other_names"):
        return {families.OTHER_NAMES.get(o, o): t for o, t in G.OBJECTS.items()}
    return G.OBJECTS


def _budget():
    from symx.core import task_budget
    return task_budget()


def all_calls():
    out = []
    for a in ITEMS:
        for i in ITEMS:
            out += [("take", [a, i]), ("drop", [a, i])]
        out += [("sweep", [a]), ("flag", [a]), ("charge", [a]), ("audit", [a])]
    out.append(("burn", ["o1", "o2", "o3"]))
    out.append(("burn", ["o2", "o1", "o1"]))
    out += [("reset", []), ("finish", [])]
    out += [("shift", ["o1", "o2", "o2"]), ("shift", ["o1", "o2", "o3"]), ("shift", ["o2", "o2", "o2"]), ("shift", ["o1", "o3", "o2"])]
    out += [("pulse", ["o1"]), ("pulse", ["o2"])]
    return out


def plans(tier, seed):
    rng = random.Random(seed * 59 + 2)
    calls = all_calls()
    curated = [
        [("take", ["o1", "o2"]), ("drop", ["o1", "o2"])],
        [("take", ["o1", "o2"]), ("take", ["o1", "o2"]), ("drop", ["o1", "o2"])],
        [("drop", ["o1", "o2"]), ("take", ["o1", "o2"]), ("burn", ["o1", "o2", "o3"])],
        [("sweep", ["o1"]), ("take", ["o1", "o3"]), ("sweep", ["o1"])],
        [("flag", ["o2"]), ("charge", ["o2"]), ("flag", ["o2"])],
        [("charge", ["o1"])],
        [],
        [("take", ["o1", "o2"]), ("reset", []), ("finish", [])],
        [("finish", []), ("reset", []), ("drop", ["o1", "o2"])],
        [("reset", [])],
        [("drop", ["o1", "o2"]), ("take", ["o1", "o2"]), ("drop", ["o1", "o2"])],  # the same call refused first, applicable later
        [("take", ["o1", "o2"]), ("drop", ["o1", "o2"]), ("take", ["o1", "o2"])],  # ... and applicable, undone, applicable again
        [("pulse", ["o1"])],
        [("take", ["o1", "o2"]), ("pulse", ["o1"]), ("pulse", ["o2"])],
        [("shift", ["o1", "o2", "o2"])],  # stays in place: deletes and adds the same fact
        [("take", ["o1", "o2"]), ("shift", ["o1", "o2", "o2"]), ("shift", ["o1", "o2", "o3"])],
        [("shift", ["o1", "o2", "o3"]), ("shift", ["o1", "o3", "o3"]), ("drop", ["o1", "o3"])],
    ]
    out = list(curated)
    n = 90 if tier == "quick" else 800
    while len(out) < len(curated) + n:
        k = rng.choice([1, 2, 2, 3, 3])
        out.append([rng.choice(calls) for _ in range(k)])
    return out


def _toks(text):
    """tokens of an action call, so that '(reset )' (the library's and the planners' print of a parameter-less call)
    and '(reset)' are the same call"""
    return str(text).replace("(", " ( ").replace(")", " ) ").split()


_PF = [0]


def _parse_plan(exporter, problem, plan, plan_file):
    """through the action_sequence argument, or through a real plan file (with / without a final line break)"""
    if not plan_file:
        return exporter.parse_plan(problem, action_sequence=[line_of(c) + "\n" for c in plan])
    import os
    from pathlib import Path
    _PF[0] += 1
    path = Path(lib.tmpdir()) / f"c04_{os.getpid()}_{_PF[0]}.solution"
    text = "\n".join(line_of(c) for c in plan) + ("\n" if plan_file == "newline" and plan else "")
    path.write_text(text)
    try:
        return exporter.parse_plan(problem, plan_path=path)
    finally:
        try:
            os.unlink(path)
        except OSError:
            pass


def line_of(call):
    return "(" + " ".join([call[0]] + list(call[1])) + ")"


def run_plan(task):
    from pddl_plus_parser.exporters import TrajectoryExporter
    from pddl_plus_parser.models import Operator
    res = {"task": task, "outcome": "held", "paths": 0, "obligations": 0, "cex": None, "reached": 0}
    stats = Stats()
    try:
        lib.install_math_shim()
        text = seqsem.ma_domain_text(actions=seqsem.MA_ACTIONS + seqsem.NULLARY_ACTIONS + seqsem.MOVE_ACTIONS)
        OBJ = _objects(task)
        comp = seqsem.Composer(text, OBJ)
        plan = [(n, list(a)) for n, a in task["plan"]]
        allow = task["allow"]
        atoms, fluents = comp.touched(plan)
        universe_atoms = lib.universe_atoms(comp.rd.predicates, OBJ, {}, comp.rd.is_subtype)
        frame = [a for a in universe_atoms if a not in atoms][:1]
        sym_atoms = atoms + frame
        if len(sym_atoms) > task.get("cap", 9):
            res["outcome"] = "out_of_bound"
            return res
        fl_all = fluents + [f for f in ["(g)", "(f o1)"] if f not in fluents][:1]
        sa, sf = comp.identity()
        states, pres, side = [], [], []
        for n, a in plan:
            pre, cons, dfn, sa, sf = comp.step(sa, sf, n, a, guard=None if allow else (lambda p: p))
            pres.append(pre)
            side += [cons, dfn]
            states.append((dict(sa), dict(sf)))
        assumption = z3.And([z3.BoolVal(True)] + side)

        def fn(ctx: Ctx):
            if not ctx.assume(assumption):
                return None
            world = lib.World(text, OBJ)
            state, keys = seqsem.symbolic_state(world, comp, sym_atoms, fl_all, is_init=True)
            world.problem.initial_state_predicates = state.state_predicates
            world.problem.initial_state_fluents = state.state_fluents
            init_digest = lib.state_digest(state)
            exporter = TrajectoryExporter(world.domain, allow_invalid_actions=allow)
            trips = _parse_plan(exporter, world.problem, plan, task.get("plan_file"))
            lines = exporter.export(trips) if trips else []
            direct = None
            if plan:
                # the direct API on the first step: raises exactly when the step is inapplicable and not allowed
                op = Operator(world.domain.actions[plan[0][0]], world.domain, list(plan[0][1]), world.objects)
                try:
                    op.apply(state, allow_inapplicable_actions=allow)
                    direct = "ok"
                except Exception as e:  # noqa
                    if not lib.is_refusal(e):
                        raise
                    direct = "refused"
            return trips, lines, keys, init_digest, direct

        def on_path(ctx: Ctx, pr):
            if pr.kind == "exc":
                _cex(ctx, res, task, comp, sym_atoms, fl_all, f"raised {type(pr.value).__name__}: {pr.value}", z3.BoolVal(True))
                return
            if pr.value is None:
                return
            res["reached"] += 1
            trips, lines, keys, init_digest, direct = pr.value
            problems = []
            if len(trips) != len(plan):
                problems.append(f"{len(trips)} triplets for {len(plan)} plan lines")
            for i, (trp, call) in enumerate(zip(trips, plan)):
                if _toks(trp.operator) != _toks(line_of(call)):
                    problems.append(f"step {i}: operator {trp.operator} for plan line {line_of(call)}")
                if i > 0 and trp.previous_state is not trips[i - 1].next_state and not (trp.previous_state == trips[i - 1].next_state):
                    problems.append(f"step {i}: pre-state is not the preceding post-state")
            for i, trp in enumerate(trips):
                if trp.next_state.is_init:
                    problems.append(f"step {i}: the post-state is flagged as the initial state")
                if trp.previous_state.is_init != (i == 0):
                    problems.append(f"step {i}: pre-state is_init={trp.previous_state.is_init}")
            if trips:
                if not lines[0].startswith("((:init") or any(not lines[2 + 2 * i].startswith("(:state") for i in range(len(plan))):
                    problems.append("exported text: the first state must be printed as ':init' and every later one as ':state'")
                d0 = lib.state_digest(trips[0].previous_state)
                if d0[0] != init_digest[0] or set(d0[1]) != set(init_digest[1]):
                    problems.append("first pre-state is not the problem's initial state")
                if len(lines) != 1 + 2 * len(plan) or any(
                        _toks(lines[1 + 2 * i])[:2] != ["(", "operator:"] or _toks(lines[1 + 2 * i])[2:-1] != _toks(line_of(c))
                        for i, c in enumerate(plan)):
                    problems.append("exported text does not have one operator line per plan line, in order")
            if problems:
                _cex(ctx, res, task, comp, sym_atoms, fl_all, "; ".join(problems[:3]), z3.BoolVal(True), structural=True)
                return
            obs = []
            for i, trp in enumerate(trips):
                obs += [(f"step {i}: {d}", o) for d, o in
                        seqsem.state_obligations(comp, trp.next_state, keys, sym_atoms, fl_all, states[i][0], states[i][1])]
            if plan:
                want_refused = z3.And(z3.Not(pres[0]), z3.BoolVal(not allow))
                obs.append(("direct apply refused iff inapplicable and not allowed", z3.BoolVal(direct == "refused") == want_refused))
            res["obligations"] += len(obs) + 4
            post = z3.And([z3.BoolVal(True)] + [o for _, o in obs])
            r = ctx.check(z3.Not(post), expect_unsat=True)
            if r == "unknown":
                raise Inconclusive("obligation")
            if r == "sat":
                bad = [d for d, o in obs if ctx.check(z3.Not(o)) == "sat"]
                _cex(ctx, res, task, comp, sym_atoms, fl_all, "trajectory differs from the transition function: " + "; ".join(bad[:3]),
                     z3.Not(post))

        explore(fn, on_path, stats=stats, max_paths=task.get("max_paths", 3000), timeout_ms=5000, time_budget_s=_budget())
        if res["reached"] == 0 and res["outcome"] == "held":
            res["outcome"] = "vacuous"
    except Inconclusive as e:
        res["outcome"], res["detail"] = "inconclusive", str(e)
    except PathLimit as e:
        if res["outcome"] != "violation":
            res["outcome"], res["detail"] = "out_of_bound", str(e)
    except Unsupported as e:
        res["outcome"], res["detail"] = "inconclusive", f"unsupported: {e}"
    except Exception as e:  # noqa
        res["outcome"], res["detail"] = "error", f"{type(e).__name__}: {e} {traceback.format_exc()[-900:]}"
    res["paths"] = stats.paths
    res["stats"] = stats.as_dict()
    return res


def replay_plan(task, atoms, fls):
    from fractions import Fraction
    from pddl_plus_parser.exporters import TrajectoryExporter
    text = seqsem.ma_domain_text(actions=seqsem.MA_ACTIONS + seqsem.NULLARY_ACTIONS + seqsem.MOVE_ACTIONS)
    comp = seqsem.Composer(text, _objects(task))
    plan = [(n, list(a)) for n, a in task["plan"]]
    allow = task["allow"]
    sa, sf = comp.identity()
    states = []
    for n, a in plan:
        _, _, _, sa, sf = comp.step(sa, sf, n, a, guard=None if allow else (lambda p: p))
        states.append((dict(sa), dict(sf)))
    world = lib.World(text, _objects(task))
    state, keys = world.make_state(dict(atoms), dict(fls), is_init=True)
    world.problem.initial_state_predicates = state.state_predicates
    world.problem.initial_state_fluents = state.state_fluents
    out = {"diffs": []}
    try:
        trips = _parse_plan(TrajectoryExporter(world.domain, allow_invalid_actions=allow), world.problem, plan, task.get("plan_file"))
    except Exception as e:  # noqa
        out["observed"] = f"{type(e).__name__}: {e}"
        out["disagree"] = True
        return out
    if len(trips) != len(plan):
        out["diffs"].append(f"{len(trips)} triplets")
    inv = {v: k for k, v in keys.items()}
    for i, trp in enumerate(trips[: len(plan)]):
        exp_atoms, exp_fl, _ = seqsem.eval_state_exact(comp, states[i][0], states[i][1], list(atoms), list(fls), atoms, fls)
        got_atoms = lib.state_atoms(trp.next_state)
        if got_atoms != exp_atoms:
            out["diffs"].append({"step": i, "only_library": sorted(got_atoms - exp_atoms), "only_oracle": sorted(exp_atoms - got_atoms)})
        got_fl = {inv.get(k, k): f.value for k, f in trp.next_state.state_fluents.items()}
        for f, ev in exp_fl.items():
            gv = got_fl.get(f)
            if gv is None or abs(Fraction(gv) - ev) > Fraction(1, 10 ** 9) * max(1, abs(ev)):
                out["diffs"].append({"step": i, "fluent": f, "library": gv, "oracle": float(ev)})
    out["disagree"] = bool(out["diffs"])
    return out


def _cex(ctx, res, task, comp, sym_atoms, fl_all, desc, neg, structural=False):
    if res["outcome"] == "violation":
        return
    model = callsym.nice_model(ctx, neg, [comp.vars.fluent(f) for f in fl_all])
    if model is None:
        return
    atoms, fls = seqsem.model_state(model, comp, sym_atoms, fl_all)
    rp = replay_plan(task, atoms, fls)
    if rp.get("disagree") or structural:
        res["outcome"] = "violation"
        res["cex"] = {"what": desc, "atoms": atoms, "fluents": fls, "replay": callsym._jsonable(rp)}
    else:
        res["unconfirmed"] = res.get("unconfirmed", 0) + 1
        res.setdefault("unconfirmed_sample", {"what": desc})


def run_line(task):
    """parse_action_call on '(' NAME ws ARG ws ARG ')' with symbolic characters"""
    import pddl_plus_parser.exporters.numeric_trajectory_exporter as nte
    from .c19 import name_char
    res = {"task": task, "outcome": "held", "paths": 0, "obligations": 0, "cex": None, "reached": 0}
    stats = Stats()
    lens, ws = task["lens"], task["ws"]

    def fn(ctx: Ctx):
        cons, words = [], []
        for wi, ln in enumerate(lens):
            vs = [z3.Int(f"w{wi}c{k}") for k in range(ln)]
            if task.get("alphabet") == "printable":
                # whatever the library's tokenizer accepts inside a name: any printable ASCII character except blanks,
                # parentheses and the comment sign (objects such as room1.1 or a@b are legal for it)
                cons += [z3.And(v >= 33, v <= 126, v != 40, v != 41, v != 59) for v in vs]
            else:
                cons += [name_char(v) for v in vs]
            words.append(SymStr([SymChar(v) for v in vs]))
        if not ctx.assume(z3.And(cons)):
            return None
        rex.install(nte, _REX)
        line = SymStr.of("(") + words[0]
        for w in words[1:]:
            line = line + ws + w
        line = line + ")" + task.get("tail", "\n")
        return words, nte.parse_action_call(line)

    def concrete_line(line):
        """the real parse_action_call (real re) on a concrete line against the reference split"""
        rex.uninstall(nte)
        want = line.lower().replace("(", " ").replace(")", " ").split()
        try:
            ac = nte.parse_action_call(line)
            got = [ac.name] + list(ac.parameters)
        except Exception as e:  # noqa
            return {"line": line, "observed": f"{type(e).__name__}: {e}", "expected": want, "disagree": True}
        return {"line": line, "observed": got, "expected": want, "disagree": got != want}

    def words_vars():
        return [[z3.Int(f"w{wi}c{k}") for k in range(ln)] for wi, ln in enumerate(lens)]

    def on_path(ctx: Ctx, pr):
        if pr.kind == "exc":
            if ctx.check() == "sat" and res["outcome"] != "violation":
                m = ctx.solver.model()
                line = "(" + ws.join("".join(chr(m.eval(v, model_completion=True).as_long()) for v in vs) for vs in words_vars()) + ")" + task.get("tail", "\n")
                rp = concrete_line(line)
                if rp["disagree"]:
                    res["outcome"] = "violation"
                    res["cex"] = {"what": f"parse_action_call raised {type(pr.value).__name__}: {pr.value}", "replay": rp}
                else:
                    res["unconfirmed"] = res.get("unconfirmed", 0) + 1
            return
        if pr.value is None:
            return
        res["reached"] += 1
        words, ac = pr.value
        got = [ac.name] + list(ac.parameters)
        res["obligations"] += 1
        parts = [z3.BoolVal(len(got) == len(words))]
        if len(got) == len(words):
            for g, w in zip(got, words):
                gs = g if isinstance(g, SymStr) else SymStr.of(g)
                parts.append(gs.eqz(w.lower()))
        m = ctx.valid(z3.And(parts))
        if m is not None and res["outcome"] != "violation":
            rp = concrete_line("(" + ws.join(w.concrete(m) for w in words) + ")" + task.get("tail", "\n"))
            if rp["disagree"]:
                res["outcome"] = "violation"
                res["cex"] = {"what": "name/parameters are not the lower-cased pieces in order", "replay": rp}
            else:
                res["unconfirmed"] = res.get("unconfirmed", 0) + 1

    try:
        explore(fn, on_path, stats=stats, max_paths=50000, timeout_ms=5000)
    except (Inconclusive, Unsupported, PathLimit) as e:
        res["outcome"], res["detail"] = "inconclusive", f"{type(e).__name__}: {e}"
    except Exception as e:  # noqa
        res["outcome"], res["detail"] = "error", f"{type(e).__name__}: {e} {traceback.format_exc()[-600:]}"
    res["paths"] = stats.paths
    res["stats"] = stats.as_dict()
    return res


def tasks_for(tier, seed):
    tasks = []
    for pi, p in enumerate(plans(tier, seed)):
        for allow in (False, True):
            # every third plan is read from a real plan file, alternately with and without a final line break
            pf = None if (pi + allow) % 3 else ("newline" if (pi // 3) % 2 else "no_newline")
            tasks.append({"kind": "plan", "plan": p, "allow": allow, "cap": 9 if tier == "quick" else 12, "plan_file": pf,
                          "max_paths": 3000 if tier == "quick" else 30000})
            if pi % 4 == 1 and p:
                # the same plan over objects with other names (o1 / o10 / o1-b_2): facts are compared and printed through their text
                ren = [(n, [families.OTHER_NAMES.get(x, x) for x in a]) for n, a in p]
                tasks.append(dict(tasks[-1], plan=ren, other_names=True))
    # plans in which a fact about o10 (o1-b_2) holds while a literal about o1 is evaluated
    for p in ([("take", ["o1", "o10"]), ("take", ["o1", "o1"])], [("drop", ["o1", "o1-b_2"]), ("take", ["o1", "o1"]), ("drop", ["o1", "o1"])],
              [("take", ["o10", "o10"]), ("take", ["o10", "o1"]), ("shift", ["o10", "o1", "o1-b_2"])]):
        for allow in (False, True):
            tasks.append({"kind": "plan", "plan": p, "allow": allow, "cap": 9 if tier == "quick" else 12, "plan_file": None,
                          "max_paths": 3000 if tier == "quick" else 30000, "other_names": True})
    for lens in ([1], [2], [1, 1], [2, 1], [1, 1, 1], [2, 2, 1]):
        for ws in (" ", "\t", "  "):
            tasks.append({"kind": "line", "lens": lens, "ws": ws})
    for lens in ([1], [2], [1, 2], [2, 1, 1]):
        tasks.append({"kind": "line", "lens": lens, "ws": " ", "alphabet": "printable"})
    return tasks


def _dispatch(t):
    return run_plan(t) if t["kind"] == "plan" else run_line(t)


def twin():
    """deliberately wrong oracle (refused steps treated as applied) must differ from the right one somewhere"""
    comp = seqsem.Composer(seqsem.ma_domain_text(), G.OBJECTS)
    sa1, sf1 = comp.identity()
    _, _, _, sa1, sf1 = comp.step(sa1, sf1, "take", ["o1", "o2"], guard=lambda p: p)
    sa2, sf2 = comp.identity()
    _, _, _, sa2, sf2 = comp.step(sa2, sf2, "take", ["o1", "o2"], guard=None)
    s = z3.Solver()
    s.add(z3.Not(comp.same_state(sa1, sf1, sa2, sf2)))
    return s.check() == z3.sat


def main(tier):
    rep = runner.Report("C04", tier, "other")
    tasks = tasks_for(tier, runner.seed())
    results = runner.pmap(_dispatch, tasks)
    from collections import Counter
    c, agg = Counter(), Counter()
    paths = obligations = nontrivial = unconfirmed = 0
    solver_s = 0.0
    samples = []
    for t, r in zip(tasks, results):
        c[f"{t['kind']}:{r['outcome']}"] += 1
        paths += r["paths"]
        obligations += r["obligations"]
        unconfirmed += r.get("unconfirmed", 0)
        st = r.get("stats") or {}
        for k in runner.STAT_KEYS:
            agg[k] += st.get(k, 0)
        solver_s += st.get("solver_seconds", 0.0)
        if r["paths"] >= 2:
            nontrivial += 1
        label = json.dumps({k: v for k, v in t.items() if k in ("kind", "plan", "allow", "lens", "ws")})
        if r["outcome"] == "violation":
            cx = r["cex"]
            rep.violation(f"{label}: {cx['what']}" + (f" from the initial state {[a for a, v in cx['atoms'].items() if v]} "
                                                     f"{ {k: v for k, v in cx['fluents'].items() if v} }" if cx.get("atoms") is not None else ""),
                          {"property": "C04", "kind": "c04", "task": t, "cex": cx})
        elif r["outcome"] == "inconclusive":
            rep.inconclusive.append(f"{label}: {r.get('detail')}")
        elif r["outcome"] == "error":
            rep.errors.append(f"{label}: {r.get('detail')}")
        elif r["outcome"] == "held" and len(samples) < 4 and r["paths"] >= 6:
            samples.append({"task": json.loads(label), "paths": r["paths"], "obligations": r["obligations"]})
    if not twin():
        rep.twins_failed.append("vacuity twin failed")
    q = dict(agg)
    q["solver_seconds"] = round(solver_s, 2)
    rep.coverage.update({
        "evaluations": len(tasks), "distinct_nontrivial": nontrivial,
        "rule": "one evaluation = one (plan, allow switch) explored over all feasible paths from a symbolic initial state (which steps "
                "are valid is decided by the solver per path), or one plan-line shape with symbolic characters; non-trivial = >=2 paths",
        "samples": samples or [{"note": "none"}], "outcomes": dict(c), "paths": paths, "obligations": obligations, "queries": q,
        "unconfirmed_counterexamples": unconfirmed, "exhaustive": False,
        "bounds": {"plans": "7 curated + sampled plans of <=3 ground calls over a 6-action domain (STRIPS, numeric, conditional, "
                            "universal effects), both values of the allow switch", "symbolic_atoms_cap": 9 if tier == "quick" else 12,
                   "plan_line": "names/arguments of 1-2 characters in [A-Za-z0-9_-], separators space/tab/two spaces",
                   "outside": "plans longer than 3 (one step from an arbitrary state is the inductive case; chaining is argued, "
                              "not mechanised); planner plans shipped with the repository"},
        "functions_executed_symbolically": ["TrajectoryExporter.parse_plan/create_single_triplet/export", "parse_action_call",
                                            "Operator.apply/is_applicable", "State.copy/serialize"],
    })
    rep.assumptions += ["effects of each step consistent, no division by zero (asserted)", "ref.sem composition oracle"]
    return rep.finish(total=len(tasks))


def replay(payload, path):
    t, cx = payload["task"], payload["cex"]
    if t["kind"] == "plan" and cx.get("atoms") is not None:
        rp = replay_plan(t, cx["atoms"], cx["fluents"])
        print(json.dumps(callsym._jsonable(rp), indent=1))
        bad = rp["disagree"]
    else:
        r = _dispatch(t)
        print(r["outcome"], r.get("cex"))
        bad = r["outcome"] == "violation"
    if bad:
        print(f"VIOLATION property=C04 replay={path}")
        return 1
    print("does not reproduce")
    return 0
