"""C17 -- combining agent domains/problems yields their union (partial claim).

Bounded symbolic execution of the real MultiAgentProblemsConverter.combine_problems / export_combined_problem and
MultiAgentDomainsConverter.locate_domains / export_combined_domain on per-agent files written by this harness into a
real scratch directory.  Symbolic: for every pool fact and every agent file, whether that file lists the fact (the
texts are assembled per path -- the solver-driven forks enumerate every overlap pattern within the bound); the value of
every fluent (placeholder tokens, the same value in every file that lists it); for domains, which optional predicates,
functions and the shared action each agent's file declares.  Enumerated: number of agent files (1-3 / 1-4), the
discovery order (a Path whose glob yields a chosen permutation), object tables, goal splits, the dummy-action switch.

Assertions per path: the combined problem has the union of the objects, every fact listed anywhere exactly once,
every fluent listed anywhere with -- by z3 -- its value, the union of the goal literals without duplicates and of the
numeric goals; the exported combined problem parses back to the same; the combined domain has the union of types,
constants, predicates, functions and actions (each action printed as in its own file), plus exactly the dummy
vocabulary when asked for; the exported combined domain parses back to the same vocabulary.  "Leaves other domains
unchanged" is C07's obligation (combine_domains histories) and is not repeated here.
"""
import itertools
import json
import os
import random
import shutil
import traceback
from collections import Counter
from pathlib import Path, PosixPath

import z3

from gen import programs as G
from ref import sexpr
from symx import core
from symx.core import Ctx, Stats, explore, Inconclusive, Unsupported, PathLimit, SymBool, SymReal
from . import lib, runner, callsym, c05, c09

_ORDER = {}
_N = [0]


class OrderedDir(PosixPath):
    """a directory whose glob() yields the matches in a chosen permutation (the discovery order is the file system's)"""

    def glob(self, pattern, **kw):
        items = sorted(PosixPath(str(self)).glob(pattern))
        perm = _ORDER.get(str(self))
        if perm:
            items = [items[i] for i in perm if i < len(items)] + [x for j, x in enumerate(items) if j not in perm]
        return iter(items)


def _dir():
    _N[0] += 1
    d = Path(lib.tmpdir()) / f"c17_{os.getpid()}_{_N[0]}"
    d.mkdir(parents=True, exist_ok=True)
    return d


DOMAIN_TEXT = c05.DOMAIN_TEXT
SHARED_OBJECTS = "o1 o2 - t1 o3 - t3 u1 - t2"
SHARED_DECL = {"o1": "t1", "o2": "t1", "o3": "t3", "u1": "t2"}
POOL = ["(p o1)", "(q o1 o2)", "(r)", "(q o2 o2)", "(p k)", "(s u1)", "(p o3)"]
FLUENTS = ["(f o1)", "(g)", "(h o2 o1)", "(h o1 o1)", "(f k)", "(h k o1)"]  # incl. fluents over the domain constant
GOAL_SPLITS = [
    [[], [], [], []],
    [[["p", "o1"]], [["p", "o1"], ["r"]], [["q", "o1", "o2"]], [["r"]]],
    [[["q", "o1", "o2"], [">=", ["f", "o1"], "2"]], [[">=", ["f", "o1"], "2"], ["p", "k"]], [["=", ["g"], "0.5"]], []],
    # duplicates inside ONE file (round 20: the duplicate test that only looked at the files combined before)
    [[[">=", ["f", "o1"], "2"], ["p", "o1"], [">=", ["f", "o1"], "2"], ["p", "o1"]], [["=", ["g"], "0.5"], ["r"], ["=", ["g"], "0.5"]],
     [[">=", ["f", "o1"], "2"], ["=", ["g"], "0.5"], ["=", ["g"], "0.5"]], [["r"], ["r"]]],
    # round 22: goals of one predicate over the same SET of objects in another order / multiplicity (a duplicate test keyed on the set)
    [[["q", "o1", "o2"], ["q", "o1", "o1"]], [["q", "o2", "o1"], ["q", "o1", "o2"]], [["q", "o2", "o2"], ["q", "o2", "o1"]], [["q", "o1", "o1"]]],
]


# ---------------------------------------------------------------------------------------------------------------------
# problems
# ---------------------------------------------------------------------------------------------------------------------
def run_problems(task):
    res = {"task": task, "outcome": "held", "paths": 0, "obligations": 0, "cex": None, "reached": 0}
    stats = Stats()
    k = task["k"]
    try:
        mv = {(i, a): z3.Bool(f"M{i}{a}") for i in range(k) for a in task["facts"]}
        xv = {f: z3.Real("X" + f) for f in task["fluents"]}

        def fn(ctx: Ctx):
            listed = {key: bool(SymBool(v)) for key, v in mv.items()}
            values = {f: SymReal(v) for f, v in xv.items()}
            return listed, values, pipeline_problems(task, listed, {f: v.tag() for f, v in values.items()}, symbolic=True)

        def on_path(ctx: Ctx, pr):
            if pr.kind == "exc":
                _cex_p(ctx, res, task, mv, xv, [f"raised {type(pr.value).__name__}: {pr.value}"], z3.BoolVal(True))
                return
            res["reached"] += 1
            listed, values, (combined, reparsed) = pr.value
            problems, obligations = [], []
            spec, truth, vals = union_spec(task, listed, values)
            c09.compare_spec(spec, truth, vals, combined, problems, obligations)
            p2, o2 = [], []
            c09.compare_spec(spec, truth, vals, reparsed, p2, o2)
            problems += ["exported combination read back: " + p for p in p2]
            obligations += [("exported combination read back: " + d, o) for d, o in o2]
            res["obligations"] += len(obligations) + 12
            if problems:
                _cex_p(ctx, res, task, mv, xv, problems, z3.BoolVal(True))
                return
            post = z3.And([z3.BoolVal(True)] + [o for _, o in obligations])
            r = ctx.check(z3.Not(post), expect_unsat=True)
            if r == "unknown":
                raise Inconclusive("obligation")
            if r == "sat":
                bad = [d for d, o in obligations if ctx.check(z3.Not(o)) == "sat"]
                _cex_p(ctx, res, task, mv, xv, ["values differ: " + "; ".join(bad[:3])], z3.Not(post))

        explore(fn, on_path, stats=stats, max_paths=task.get("max_paths", 1500), timeout_ms=5000, time_budget_s=core.task_budget())
        if res["reached"] == 0 and res["outcome"] == "held":
            res["outcome"] = "vacuous"
    except Inconclusive as e:
        res["outcome"], res["detail"] = "inconclusive", str(e)
    except PathLimit as e:
        if res["outcome"] != "violation":
            res["outcome"], res["detail"] = "out_of_bound", str(e)
    except Unsupported as e:
        res["outcome"], res["detail"] = "inconclusive", f"unsupported: {e}"
    except Exception as e:  # noqa
        res["outcome"], res["detail"] = "error", f"{type(e).__name__}: {e} {traceback.format_exc()[-900:]}"
    res["paths"] = stats.paths
    res["stats"] = stats.as_dict()
    return res


def file_spec(task, i):
    """objects text/decl, always-listed facts, fluents and goal of agent file i"""
    priv = f"a{i}"
    if task.get("disjoint_objects"):
        half = [("o1 o2 - t1", {"o1": "t1", "o2": "t1"}), ("o3 - t3 u1 - t2 o1 - t1", {"o3": "t3", "u1": "t2", "o1": "t1"})][i % 2]
        otext, odecl = half[0] + f" {priv} - t1", dict(half[1], **{priv: "t1"})
    else:
        otext, odecl = SHARED_OBJECTS + f" {priv} - t1", dict(SHARED_DECL, **{priv: "t1"})
    # an object of the root type, declared before the typed ones (a bare name in a typed list would take the type that follows)
    otext, odecl = f"x{i} - object " + otext, dict({f"x{i}": "object"}, **odecl)
    fixed = [f"(p {priv})"] if task.get("private_facts", True) else []
    fl = [f for f, files in task["fluent_files"].items() if i in files and _declares(odecl, f)]
    goal = [g for g in task["goals"][i] if _declares(odecl, sexpr.render(g))]
    return otext, odecl, fixed, fl, goal


def pipeline_problems(task, listed, tokens, symbolic):
    from pddl_plus_parser.multi_agent import MultiAgentProblemsConverter
    from pddl_plus_parser.lisp_parsers import ProblemParser
    import pddl_plus_parser.lisp_parsers.problem_parser as ppm
    d = _dir()
    try:
        dom = d / "dom.pddl"
        dom.write_text(DOMAIN_TEXT)
        for i in range(task["k"]):
            otext, odecl, fixed, fl, goal = file_spec(task, i)
            atoms = fixed + [a for a in task["facts"] if listed[(i, a)] and _declares(odecl, a)]
            t = {"objects_text": otext, "goal": goal, "name": "pu"}
            (d / f"pfile-{i}.pddl").write_text(c05.problem_text(t, atoms, {f: tokens[f] for f in fl}))
        _ORDER[str(d)] = task.get("order")
        conv = MultiAgentProblemsConverter(OrderedDir(str(d)), "pfile")
        if symbolic:
            ppm.float = core.sym_float
        try:
            combined = conv.combine_problems(dom)
            conv.export_combined_problem(dom)
            domain = lib.parse_domain(DOMAIN_TEXT)
            reparsed = ProblemParser(d / "combined_problem.pddl", domain).parse_problem()
        finally:
            if symbolic:
                del ppm.float
        return combined, reparsed
    finally:
        _ORDER.pop(str(d), None)
        shutil.rmtree(d, ignore_errors=True)


def _declares(odecl, text):
    """every object name mentioned in the printed literal / fluent / condition is declared by the file (or is the constant)"""
    toks = text.replace("(", " ").replace(")", " ").split()
    names = [t for t in toks if t in SHARED_DECL or (t.startswith("a") and t[1:].isdigit())]
    return all(o in odecl for o in names)


def union_spec(task, listed, values):
    objects, goal, truth, present = {}, [], {}, set()
    for i in range(task["k"]):
        otext, odecl, fixed, fl, g = file_spec(task, i)
        objects.update(odecl)
        for a in fixed:
            truth[a] = True
        for a in task["facts"]:
            truth[a] = truth.get(a, False) or (listed[(i, a)] and _declares(odecl, a))
        present.update(fl)
        for lit in g:
            if lit not in goal:
                goal.append(lit)
    spec = {"objects": objects, "goal": goal, "name": "pu"}
    return spec, truth, {f: v for f, v in values.items() if f in present}


def concrete_problems(task, listed, fls):
    out = {}
    try:
        combined, reparsed = pipeline_problems(task, listed, {f: repr(v) for f, v in fls.items()}, symbolic=False)
    except Exception as e:  # noqa
        out["observed"] = f"{type(e).__name__}: {e}"
        out["problems"] = [out["observed"]]
        out["disagree"] = True
        return out
    spec, truth, vals = union_spec(task, listed, fls)
    problems, obligations = [], []
    c09.compare_spec(spec, truth, vals, combined, problems, obligations)
    p2, o2 = [], []
    c09.compare_spec(spec, truth, vals, reparsed, p2, o2)
    problems += ["exported combination read back: " + p for p in p2]
    for d, o in obligations + o2:
        if not z3.is_true(z3.simplify(o)):
            problems.append(d + " differs")
    out["problems"] = problems[:6]
    out["disagree"] = bool(problems)
    return out


def _cex_p(ctx, res, task, mv, xv, problems, neg):
    if res["outcome"] == "violation":
        return
    model = callsym.nice_model(ctx, neg, list(xv.values()))
    if model is None:
        res["unconfirmed"] = res.get("unconfirmed", 0) + 1
        return
    listed = {key: bool(z3.is_true(model.eval(v, model_completion=True))) for key, v in mv.items()}
    fls = {f: lib.to_float(core.zval(model, v)) for f, v in xv.items()}
    rp = concrete_problems(task, listed, fls)
    if not rp.get("disagree"):
        # number printing lies outside the symbolic model (values travel as tokens): before the counterexample is counted as not
        # reproducing it is retried with values that need many significant digits; what reproduces is reported with those values
        for shift in c09.AWKWARD:
            fls2 = {f: v + shift for f, v in fls.items()}
            rp2 = concrete_problems(task, listed, fls2)
            if rp2.get("disagree"):
                fls, rp = fls2, rp2
                break
    if rp.get("disagree"):
        res["outcome"] = "violation"
        res["cex"] = {"what": "; ".join(problems[:3]), "listed": [[i, a] for (i, a), t in listed.items() if t], "fluents": fls,
                      "replay": callsym._jsonable(rp), "all_problems": list(rp.get("problems") or problems)}
    else:
        res["unconfirmed"] = res.get("unconfirmed", 0) + 1
        res.setdefault("unconfirmed_sample", {"what": "; ".join(problems[:3])})


# ---------------------------------------------------------------------------------------------------------------------
# domains
# ---------------------------------------------------------------------------------------------------------------------
OPT_PREDICATES = [["e1", "?a", "-", "t3"], ["e2"]]
OPT_FUNCTIONS = [["w", "?a", "-", "t2"]]
OPT_TYPES = ["t4", "-", "t3"]
SHARED_ACTION = ("common", [("?x", "t1")], ["and", ["p", "?x"]], ["and", ["not", ["p", "?x"]], ["r"]])


def own_action(i):
    if i % 2:
        # parameters of equal type that are not adjacent, and a subtype in between (their ORDER is part of the action)
        return (f"act{i}", [("?x", "t1"), ("?u", "t2"), ("?y", "t1"), ("?v", "t3")],
                ["and", ["q", "?x", "?y"], ["s", "?u"], ["p", "?v"], [">=", ["f", "?x"], str(i)]],
                ["and", ["not", ["q", "?x", "?y"]], ["q", "?v", "?x"], ["increase", ["f", "?y"], str(i + 1)]])
    return (f"act{i}", [("?x", "t1"), ("?y", "t1")], ["and", ["q", "?x", "?y"], [">=", ["f", "?x"], str(i)]],
            ["and", ["not", ["q", "?x", "?y"]], ["increase", ["f", "?y"], str(i + 1)]])


def domain_file_text(i, flags):
    """agent i's domain file: base vocabulary + the optional pieces its flags switch on + its own action"""
    types = list(G.TYPES) + (OPT_TYPES if flags["t4"] else [])
    preds = [p for p, on in zip(OPT_PREDICATES, (flags["e1"], flags["e2"])) if on]
    acts = ([own_action(i)] if flags["own"] else []) + ([SHARED_ACTION] if flags["common"] else [])
    tree = G.domain_tree(acts, const=True, types=types, extra_predicates=preds)
    if flags["w"]:
        for sec in tree:
            if isinstance(sec, list) and sec and sec[0] == ":functions":
                sec.extend(OPT_FUNCTIONS)
    _set_constants(tree, file_constants(i))
    return G.pretty(tree)


def file_constants(i):
    """the agents' files declare overlapping subsets of the constants: every file k and c2, every second file also c3 (of k's
    type, so that in the union the constants of one type are not next to each other)"""
    return ["k", "-", "t1", "c2", "-", "t2"] + (["c3", "-", "t1"] if i % 2 else [])


def _set_constants(tree, consts):
    for sec in tree:
        if isinstance(sec, list) and sec and sec[0] == ":constants":
            sec[1:] = consts


def vocabulary(domain):
    return {
        "types": {n: (t.parent.name if t.parent is not None else None) for n, t in domain.types.items()},
        "constants": {n: c.type.name for n, c in domain.constants.items()},
        "predicates": {n: [(a, t.name) for a, t in p.signature.items()] for n, p in domain.predicates.items()},
        "functions": {n: [(a, t.name) for a, t in f.signature.items()] for n, f in domain.functions.items()},
        "actions": {n: (list(a.signature.keys()), [t.name for t in a.signature.values()],
                        sorted(sexpr.tokens(a.preconditions.print(should_simplify=False) if a.preconditions is not None else "")),
                        sorted(sexpr.tokens(a.effects_to_pddl()))) for n, a in domain.actions.items()},
    }


def run_domains(task):
    res = {"task": task, "outcome": "held", "paths": 0, "obligations": 0, "cex": None, "reached": 0}
    stats = Stats()
    k = task["k"]
    names = ("t4", "e1", "e2", "w", "common", "own")
    # within the path budget: with 3-4 files only some of the optional declarations are symbolic per file, the others are
    # fixed (declared by the files with an even index)
    sym_names = task.get("sym_names") or names
    try:
        fv = {(i, n): (z3.Bool(f"D{i}{n}") if n in sym_names else z3.BoolVal(i % 2 == 0)) for i in range(k) for n in names}

        def fn(ctx: Ctx):
            flags = [{n: bool(SymBool(fv[(i, n)])) if n in sym_names else (i % 2 == 0) for n in names} for i in range(k)]
            return flags, pipeline_domains(task, flags)

        def on_path(ctx: Ctx, pr):
            if pr.kind == "exc":
                res["reached"] += 1
                _cex_d(ctx, res, task, fv, [f"raised {type(pr.value).__name__}: {pr.value}"])
                return
            res["reached"] += 1
            flags, (combined, reparsed) = pr.value
            problems = domain_problems(task, flags, combined, reparsed)
            res["obligations"] += 12
            if problems:
                _cex_d(ctx, res, task, fv, problems)

        explore(fn, on_path, stats=stats, max_paths=task.get("max_paths", 1500), timeout_ms=5000, time_budget_s=core.task_budget())
    except (Inconclusive, Unsupported) as e:
        res["outcome"], res["detail"] = "inconclusive", f"{type(e).__name__}: {e}"
    except PathLimit as e:
        if res["outcome"] != "violation":
            res["outcome"], res["detail"] = "out_of_bound", str(e)
    except Exception as e:  # noqa
        res["outcome"], res["detail"] = "error", f"{type(e).__name__}: {e} {traceback.format_exc()[-900:]}"
    res["paths"] = stats.paths
    res["stats"] = stats.as_dict()
    return res


def pipeline_domains(task, flags):
    from pddl_plus_parser.multi_agent import MultiAgentDomainsConverter
    d = _dir()
    out = d / "out"
    out.mkdir()
    try:
        for i in range(task["k"]):
            (d / f"domain-{i}.pddl").write_text(domain_file_text(i, flags[i]))
        _ORDER[str(d)] = task.get("order")
        conv = MultiAgentDomainsConverter(OrderedDir(str(d)))
        combined = conv.locate_domains(add_dummy_actions=task["dummy"])
        path = conv.export_combined_domain(add_dummy_actions=task["dummy"], output_folder=out)
        from pddl_plus_parser.lisp_parsers import DomainParser
        reparsed = DomainParser(path, partial_parsing=False, enable_disjunctions=True).parse_domain()
        return combined, reparsed
    finally:
        _ORDER.pop(str(d), None)
        shutil.rmtree(d, ignore_errors=True)


def domain_problems(task, flags, combined, reparsed):
    k = task["k"]
    any_ = {n: any(f[n] for f in flags) for n in flags[0]}
    # reference: ONE domain text with everything that some file declares, parsed by the library's own parser
    ref_flags = dict(any_)
    acts = [own_action(i) for i in range(k) if flags[i]["own"]] + ([SHARED_ACTION] if any_["common"] else [])
    types = list(G.TYPES) + (OPT_TYPES if any_["t4"] else [])
    preds = [p for p, on in zip(OPT_PREDICATES, (any_["e1"], any_["e2"])) if on]
    tree = G.domain_tree(acts, const=True, types=types, extra_predicates=preds)
    if any_["w"]:
        for sec in tree:
            if isinstance(sec, list) and sec and sec[0] == ":functions":
                sec.extend(OPT_FUNCTIONS)
    _set_constants(tree, ["k", "-", "t1", "c2", "-", "t2"] + (["c3", "-", "t1"] if k > 1 else []))
    want = vocabulary(lib.parse_domain(G.pretty(tree)))
    if task["dummy"]:
        want["predicates"]["dummy-additional-predicate"] = []
    problems = []
    for label, dom in (("combined domain", combined), ("exported combined domain read back", reparsed)):
        got = vocabulary(dom)
        for sec in ("types", "constants", "predicates", "functions"):
            if got[sec] != want[sec]:
                problems.append(f"{label}: {sec} differ: only combined {sorted(set(got[sec]) - set(want[sec]))}, missing "
                                f"{sorted(set(want[sec]) - set(got[sec]))}" + ("" if set(got[sec]) != set(want[sec]) else " (same names, other signatures)"))
        ga = {n: v for n, v in got["actions"].items() if not n.startswith("dummy-")}
        dummies = sorted(n for n in got["actions"] if n.startswith("dummy-"))
        if set(ga) != set(want["actions"]):
            problems.append(f"{label}: actions {sorted(ga)} for {sorted(want['actions'])}")
        else:
            for n in ga:
                if ga[n] != want["actions"][n]:
                    problems.append(f"{label}: action {n} differs from its own file's definition")
        if dummies != (["dummy-add-predicate-action", "dummy-del-predicate-action"] if task["dummy"] else []):
            problems.append(f"{label}: dummy actions {dummies} with add_dummy_actions={task['dummy']}")
    return problems


def _cex_d(ctx, res, task, fv, problems):
    if res["outcome"] == "violation":
        return
    if ctx.check() != "sat":
        return
    m = ctx.solver.model()
    k = task["k"]
    names = ("t4", "e1", "e2", "w", "common", "own")
    flags = [{n: bool(z3.is_true(m.eval(fv[(i, n)], model_completion=True))) for n in names} for i in range(k)]
    try:
        combined, reparsed = pipeline_domains(task, flags)
        again = domain_problems(task, flags, combined, reparsed)
    except Exception as e:  # noqa
        again = [f"raised {type(e).__name__}: {e}"]
    if again:
        res["outcome"] = "violation"
        res["cex"] = {"what": "; ".join(again[:3]), "flags": flags, "all_problems": again}
    else:
        res["unconfirmed"] = res.get("unconfirmed", 0) + 1


# ---------------------------------------------------------------------------------------------------------------------
def _dispatch(t):
    return run_problems(t) if t["kind"] == "problems" else run_domains(t)


def tasks_for(tier, seed):
    rng = random.Random(seed * 53 + 11)
    tasks = []
    ks = [1, 2, 3] if tier == "quick" else [1, 2, 3, 4]
    for k in ks:
        orders = [None] if k == 1 else ([None, list(reversed(range(k)))] if tier == "quick" else [list(p) for p in itertools.permutations(range(k))][:6])
        n_facts = {1: 4, 2: 3, 3: 2, 4: 2}[k]
        for oi, order in enumerate(orders):
            for gi, gs in enumerate(GOAL_SPLITS):
                facts = rng.sample(POOL, n_facts)
                fl = rng.sample(FLUENTS, 2 + (gi + oi) % 2)
                fluent_files = {f: sorted(rng.sample(range(k), rng.randint(1, k))) for f in fl}
                tasks.append({"kind": "problems", "k": k, "order": order, "facts": facts, "fluents": fl, "fluent_files": fluent_files,
                              "goals": gs[:k] if k <= len(gs) else gs, "disjoint_objects": bool((gi + oi) % 2) and k >= 2,
                              # without the private fact a file may list no boolean fact at all (only fluents, or nothing)
                              "private_facts": bool((gi + oi + k) % 2),
                              "max_paths": 1500 if tier == "quick" else 6000})
        for oi, order in enumerate(orders[:2] if tier == "quick" else orders):
            for dummy in (False, True):
                if k >= 3 and tier == "quick" and dummy and oi:
                    continue
                names = ("t4", "e1", "e2", "w", "common", "own")
                budget = {1: 6, 2: 4 if tier == "quick" else 6, 3: 3, 4: 2}[k]
                sym = names if budget >= len(names) else tuple(["own"] + rng.sample([n for n in names if n != "own"], budget - 1))
                tasks.append({"kind": "domains", "k": k, "order": order, "dummy": dummy, "sym_names": list(sym),
                              "max_paths": 1100 if tier == "quick" else 40000})
    return tasks


def twin():
    """the comparison must notice a combined problem that lacks a fact one of the files lists"""
    task = {"kind": "problems", "k": 2, "order": None, "facts": ["(r)"], "fluents": [], "fluent_files": {}, "goals": [[], []]}
    listed = {(0, "(r)"): True, (1, "(r)"): False}
    combined, _ = pipeline_problems(task, listed, {}, symbolic=False)
    spec, truth, vals = union_spec(task, {(0, "(r)"): True, (1, "(r)"): True}, {})
    truth["(q o1 o2)"] = True
    problems, obligations = [], []
    c09.compare_spec(spec, truth, vals, combined, problems, obligations)
    return bool(problems)


def main(tier):
    rep = runner.Report("C17", tier, "other")
    tasks = tasks_for(tier, runner.seed())
    results = runner.pmap(_dispatch, tasks)
    c, agg = Counter(), Counter()
    paths = obligations = nontrivial = unconfirmed = 0
    solver_s = 0.0
    samples = []
    known = runner.load_known("C17")
    for t, r in zip(tasks, results):
        c[f"{t['kind']}:{r['outcome']}"] += 1
        paths += r["paths"]
        obligations += r["obligations"]
        unconfirmed += r.get("unconfirmed", 0)
        st = r.get("stats") or {}
        for kk in runner.STAT_KEYS:
            agg[kk] += st.get(kk, 0)
        solver_s += st.get("solver_seconds", 0.0)
        if r["paths"] >= 2:
            nontrivial += 1
        label = json.dumps({kk: v for kk, v in t.items() if kk not in ("max_paths",)}, default=str)
        if r["outcome"] == "violation":
            cx = r["cex"]
            detail = f"{label}: {cx['what']}"
            kf = next((kn for kn in known if cx.get("all_problems") and all(
                all(x in pr_ for x in kn.get("problem_contains", ["\0"])) for pr_ in cx["all_problems"])), None)
            if kf is not None:
                rep.known(kf, 1)
            else:
                rep.violation(detail, {"property": "C17", "kind": "c17", "task": t, "cex": cx})
        elif r["outcome"] == "inconclusive":
            rep.inconclusive.append(f"{label}: {r.get('detail')}")
        elif r["outcome"] == "error":
            rep.errors.append(f"{label}: {r.get('detail')}")
        elif len(samples) < 4 and r["paths"] >= 8 and r["outcome"] == "held":
            samples.append({"task": json.loads(label), "paths": r["paths"], "obligations": r["obligations"]})
    if not twin():
        rep.twins_failed.append("vacuity twin: a missing fact was not noticed")
    q = dict(agg)
    q["solver_seconds"] = round(solver_s, 2)
    rep.coverage.update({
        "evaluations": len(tasks), "distinct_nontrivial": nontrivial,
        "rule": "one evaluation = one (kind, number of agent files, discovery order, fact pool / fluent placement / goal split | dummy "
                "switch) explored over all feasible paths: every (file, pool fact) listing bit and every fluent value symbolic for "
                "problems, every (file, optional declaration) bit for domains; non-trivial = >=2 paths",
        "samples": samples or [{"note": "none"}], "outcomes": dict(c), "paths": paths, "obligations": obligations, "queries": q,
        "unconfirmed_counterexamples": unconfirmed, "vacuity_twin_refuted": not rep.twins_failed, "exhaustive": False,
        "bounds": {"agent_files": "1-3 (quick) / 1-4 (thorough)", "problems": "2-4 pool facts per task with a symbolic listing bit per "
                   "file (every overlap pattern), 2-3 fluents placed in enumerated file subsets with one symbolic value each, shared and "
                   "half-disjoint object tables with one private object per file, 3 goal splits with duplicates across files",
                   "domains": "base vocabulary in every file; per file symbolic bits for an extra type, two extra predicates, an extra "
                              "function, a shared action and the file's own action (a file may declare no action at all); dummy switch",
                   "orders": "identity + reversed (quick) / up to 6 permutations (thorough) through a Path whose glob is permuted",
                   "outside": "files that disagree about a fluent's value or a shared action's body (unspecified by the property), "
                              "'leaves other domains unchanged' (C07), directory layouts other than the documented name patterns, "
                              "repr/float of doubles"},
        "functions_executed_symbolically": ["MultiAgentProblemsConverter.combine_problems/export_combined_problem",
                                            "MultiAgentDomainsConverter.locate_domains/_add_dummy_actions/export_combined_domain",
                                            "ProblemParser.*, DomainParser.* (on the per-agent files), ProblemExporter.*, DomainExporter.*"],
        "shims": ["a symbolic value is written into the files as a placeholder token; float(token) in problem_parser -> the value",
                  "Path.glob of the working directory -> a chosen permutation of the matches"],
    })
    rep.assumptions += ["repr(float) is injective on values and float(repr(x)) == x", "reference for actions = the library's own parse of "
                        "one domain text that contains every declaration"]
    return rep.finish(total=len(tasks))


def replay(payload, path):
    t, cx = payload["task"], payload["cex"]
    if t["kind"] == "problems":
        listed = {(i, a): False for i in range(t["k"]) for a in t["facts"]}
        for i, a in cx.get("listed", []):
            listed[(i, a)] = True
        rp = concrete_problems(t, listed, cx.get("fluents", {}))
        print(json.dumps(callsym._jsonable(rp), indent=1))
        bad = rp["disagree"]
    else:
        try:
            combined, reparsed = pipeline_domains(t, cx["flags"])
            again = domain_problems(t, cx["flags"], combined, reparsed)
        except Exception as e:  # noqa
            again = [f"raised {type(e).__name__}: {e}"]
        print(json.dumps(again, indent=1))
        bad = bool(again)
    if bad:
        print(f"VIOLATION property=C17 replay={path}")
        return 1
    print("does not reproduce")
    return 0
