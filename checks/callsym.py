"""checks.callsym -- symbolic execution of one grounded action call of the real library against
the semantic oracle.  Shared by C02, C03, C06, C08, C16, C18.

A task is a plain dict (picklable):
  domain_text, action, args, objects, mode ('applicable' | 'apply'), cap (max symbolic atoms),
  optional: order (permutation seed for set iteration), flags
"""
import itertools
import json
import os
import time
import traceback
from fractions import Fraction
from typing import Dict, List

import z3

from ref import pddl as rpddl, sem as rsem, sexpr
from symx.core import (Ctx, SymBool, SymReal, Stats, explore, Unsupported, Inconclusive, PathLimit, zval)
from . import lib


def _all_ground_fluents(rd: rpddl.RDomain, objects, consts):
    allo = dict(consts)
    allo.update(objects)
    out = []
    for name, sig in rd.functions.items():
        doms = [[o for o, t in allo.items() if rd.is_subtype(t, pt)] for _, pt in sig]
        for tup in itertools.product(*doms):
            out.append(rsem.atom_name(name, tup))
    return out


def _all_ground_atoms(rd: rpddl.RDomain, objects, consts):
    return lib.universe_atoms(rd.predicates, objects, consts, rd.is_subtype)


class Prepared:
    def __init__(self, task):
        self.task = task
        self.rd = rpddl.read_domain(task["domain_text"])
        self.objects = task["objects"]
        self.consts = dict(self.rd.constants)
        self.eps = lib.lib_eps()
        self.vars = rsem.Vars()
        self.sem = rsem.Sem(self.rd, self.objects, self.eps, self.vars, variant=frozenset(task.get("variant", ())))
        self.cs = self.sem.call(self.rd.actions[task["action"]], task["args"])
        self.all_atoms = _all_ground_atoms(self.rd, self.objects, self.consts)
        universe_fluents = _all_ground_fluents(self.rd, self.objects, self.consts)
        relf = sorted(self.cs.read_fluents | self.cs.written_fluents)
        n_ff = task.get("frame_fluents", 1)
        # state fluents: everything the call reads or writes + frame fluents it must not touch
        self.all_fluents = relf + [f for f in universe_fluents if f not in relf][:n_ff]
        rel = sorted(self.cs.read_atoms | self.cs.written_atoms)
        n_fa = task.get("frame_atoms", 0 if task.get("mode") == "applicable" else 1)
        frame = [a for a in self.all_atoms if a not in rel][:n_fa]
        self.sym_atoms = rel + frame
        self.frame_atoms = frame
        self.false_atoms = [a for a in self.all_atoms if a not in self.sym_atoms]
        self.out_of_bound = len(self.sym_atoms) > task.get("cap", 9)

    def variant_sem(self, variant):
        s = rsem.Sem(self.rd, self.objects, self.eps, self.vars, variant=frozenset(variant))
        return s.call(self.rd.actions[self.task["action"]], self.task["args"])


def build_state(ctx: Ctx, world: lib.World, prep: Prepared):
    atoms = {}
    for a in prep.sym_atoms:
        atoms[a] = SymBool(prep.vars.atom(a))
    fl = {}
    for f in prep.all_fluents:
        if f not in _undefined(prep):
            fl[f] = SymReal(prep.vars.fluent(f))
    state, keys = world.make_state(atoms, fl)
    _route(world, prep.task, state)
    _undefined_keys(world, prep, keys)
    return state, keys


def _undefined(prep):
    """fluents the state does NOT define (task['undefined_fluents']): the library reads them as 0, the oracle's variable of such a
    fluent is assumed to be 0, and the state simply has no entry for it"""
    return [f for f in prep.task.get("undefined_fluents", []) if f in prep.all_fluents]


def _undefined_keys(world, prep, keys):
    for f in _undefined(prep):
        keys.setdefault(f, world.ground_fluent(f).untyped_representation)


def _route(world, task, state):
    """the same state as another construction route of the library builds it: facts and fluents re-created by the trajectory
    parser, given the problem (annotated with the objects' own types) or not (declared parameter types)"""
    r = task.get("state_route")
    if r:
        lib.via_trajectory_parser(world, state, with_problem=(r == "trajectory"))


def concrete_state(world: lib.World, prep: Prepared, atom_vals: Dict[str, bool], fl_vals: Dict[str, float]):
    atoms = {a: bool(atom_vals.get(a, False)) for a in prep.sym_atoms}
    fl = {f: fl_vals[f] for f in prep.all_fluents if f not in _undefined(prep)}
    state, keys = world.make_state(atoms, fl)
    _route(world, prep.task, state)
    _undefined_keys(world, prep, keys)
    return state, keys


class PermSet(set):
    """A set whose *iteration order* is a chosen permutation (the library's effect collections
    are hash sets keyed by object identity or string hash: their order is an implicit
    schedule).  Only Python-level iteration is redirected; membership, add, discard are the
    real set operations."""

    _seed = 0
    _cache = None

    def __iter__(self):
        ident = tuple(sorted(map(id, set.__iter__(self))))
        if self._cache is None or self._cache[0] != ident:
            items = sorted(set.__iter__(self), key=_stable_key)
            if self._seed == 1:
                items.reverse()
            elif self._seed > 1:
                import random
                random.Random(self._seed).shuffle(items)
            self._cache = (ident, items)
        return iter(self._cache[1])


def _stable_key(x):
    """A printable identity that does not go through the library's __str__ of conditions
    (which runs sympy)."""
    try:
        if hasattr(x, "to_pddl"):
            return "n" + x.to_pddl(6)
        if hasattr(x, "untyped_representation"):
            return "p" + x.untyped_representation
        if hasattr(x, "grounded_discrete_effects"):
            return "g" + _keys(x.grounded_discrete_effects) + "|" + _keys(x.grounded_numeric_effects) + \
                ("|c" + _pre_key(x.grounded_antecedents._lifted_precondition.root) if x.grounded_antecedents is not None else "")
        if hasattr(x, "antecedents"):
            return "c" + _pre_key(x.antecedents.root) + "=>" + _keys(x.discrete_effects) + "|" + _keys(x.numeric_effects)
        if hasattr(x, "conditional_effects"):
            return "u" + x.quantified_parameter + x.quantified_type.name + _keys(x.conditional_effects)
        if hasattr(x, "operands"):
            return "o" + _pre_key(x)
        return "z" + str(x)
    except Exception:  # noqa
        return "zz" + repr(type(x))


def _keys(s):
    return ",".join(sorted(_stable_key(e) for e in set.__iter__(s)))


def _pre_key(pre):
    q = getattr(pre, "quantified_parameter", "")
    return f"({pre.binary_operator}{q} " + _keys(pre.operands) + " =" + str(sorted(pre.equality_preconditions)) + \
        " !=" + str(sorted(pre.inequality_preconditions)) + ")"


def permset(s, seed):
    if isinstance(s, PermSet) and s._seed == seed:
        return s
    p = PermSet(set.__iter__(s) if isinstance(s, PermSet) else s)
    p._seed = seed
    return p


def impose_order(action, seed):
    """Replace the effect/condition collections of a parsed action by PermSets."""
    if seed is None:
        return
    action.discrete_effects = permset(action.discrete_effects, seed)
    action.numeric_effects = permset(action.numeric_effects, seed)
    action.conditional_effects = permset(action.conditional_effects, seed)
    action.universal_effects = permset(action.universal_effects, seed)
    for ce in list(set.__iter__(action.conditional_effects)):
        ce.discrete_effects = permset(ce.discrete_effects, seed)
        ce.numeric_effects = permset(ce.numeric_effects, seed)
    for ue in list(set.__iter__(action.universal_effects)):
        ue.conditional_effects = permset(ue.conditional_effects, seed)
        for ce in list(set.__iter__(ue.conditional_effects)):
            ce.discrete_effects = permset(ce.discrete_effects, seed)
            ce.numeric_effects = permset(ce.numeric_effects, seed)

    def walk(pre):
        pre.operands = permset(pre.operands, seed)
        for o in list(set.__iter__(pre.operands)):
            if hasattr(o, "operands"):
                walk(o)

    walk(action.preconditions.root)
    for ce in list(set.__iter__(action.conditional_effects)):
        walk(ce.antecedents.root)


def impose_order_grounded(op, seed):
    if seed is None:
        return
    if not op.grounded:
        op.ground()
    op.lifted_universal_effects = op.action.universal_effects
    op.grounded_effects = permset(op.grounded_effects, seed)
    for ge in list(set.__iter__(op.grounded_effects)):
        ge.grounded_discrete_effects = permset(ge.grounded_discrete_effects, seed)
        ge.grounded_numeric_effects = permset(ge.grounded_numeric_effects, seed)
    if op.problem_objects is not None and seed:
        items = sorted(op.problem_objects.items())
        if seed == 1:
            items.reverse()
        else:
            import random
            random.Random(seed).shuffle(items)
        op.problem_objects = dict(items)


def make_world(task) -> lib.World:
    """the library-side domain: the task's text, optionally passed through a library transformation first
    (the oracle always reads the original text)"""
    tr = task.get("lib_transform")
    if tr is None:
        return lib.World(task["domain_text"], task["objects"])
    dom = lib.parse_domain(task["domain_text"])
    if tr == "export_reparse":
        from pddl_plus_parser.exporters import DomainExporter
        dom = lib.parse_domain(DomainExporter().extract_domain(dom))
    elif tr == "change_signature":
        dom.actions[task["action"]].change_signature(dict(task["renaming"]))
    else:
        raise ValueError(tr)
    return lib.World(task["domain_text"], task["objects"], domain=dom)


def make_operator(world: lib.World, task):
    Operator = lib._models().Operator

    impose_order(world.domain.actions[task["action"]], task.get("order"))
    return Operator(
        action=world.domain.actions[task["action"]],
        domain=world.domain,
        grounded_action_call=list(task["args"]),
        problem_objects=world.objects if task.get("with_objects", True) else None,
    )


def nice_model(ctx: Ctx, negpost, real_vars):
    """Prefer counterexamples whose reals are of moderate size (they survive the conversion to
    doubles better); fall back to any model.  Only linear bounds are added: integrality
    constraints make nonlinear real queries intractable."""
    for bound in (1000, 10 ** 7):
        cons = [negpost]
        for v in real_vars:
            cons.append(v <= bound)
            cons.append(v >= -bound)
        if ctx.check(*cons) == "sat":
            return ctx.solver.model()
    if ctx.check(negpost) == "sat":
        return ctx.solver.model()
    return None


def model_assignment(model, prep: Prepared):
    atoms = {a: bool(z3.is_true(model.eval(prep.vars.atom(a), model_completion=True))) for a in prep.sym_atoms}
    fls = {f: zval(model, prep.vars.fluent(f)) for f in prep.all_fluents}
    return atoms, fls


def eval_exact(term, prep: Prepared, atoms: Dict[str, bool], fls: Dict[str, Fraction]):
    subs = []
    for a in prep.all_atoms:
        subs.append((prep.vars.atom(a), z3.BoolVal(bool(atoms.get(a, False)))))
    for f, v in fls.items():
        subs.append((prep.vars.fluent(f), z3.Q(v.numerator, v.denominator) if v.denominator != 1 else z3.RealVal(v.numerator)))
    t = z3.simplify(z3.substitute(term, *subs))
    if z3.is_true(t):
        return True
    if z3.is_false(t):
        return False
    if z3.is_rational_value(t):
        return Fraction(t.numerator_as_long(), t.denominator_as_long())
    raise Unsupported(f"cannot evaluate oracle term exactly: {t}")


# ----------------------------------------------------------------------------------------------
# concrete replay (no symbolic values anywhere; the shim passes concrete floats to math.isclose)
# ----------------------------------------------------------------------------------------------
def compose_twice(cs, vars_):
    """oracle semantics of applying the same call twice in a row (the second time to the first successor): the
    substitution of the first call's post-state terms into its own semantics"""
    import types
    sub = [(vars_.atom(a), t) for a, t in cs.next_atom.items()] + [(vars_.fluent(f), t) for f, t in cs.next_fluent.items()]

    def s2(t):
        return z3.substitute(t, *sub) if sub else t

    return types.SimpleNamespace(
        defined=z3.And(cs.defined, s2(cs.defined)), pre=z3.And(cs.pre, s2(cs.pre)),
        consistent=z3.And(cs.consistent, s2(cs.consistent)),
        next_atom={a: s2(t) for a, t in cs.next_atom.items()}, next_fluent={f: s2(t) for f, t in cs.next_fluent.items()})


def replay_concrete(task, atoms: Dict[str, bool], fl_float: Dict[str, float]):
    """Run the real library on a concrete state; return observed behaviour and the oracle's
    exact expectation for the same doubles."""
    prep = Prepared(task)
    world = make_world(task)
    fl_float = {f: (0.0 if f in _undefined(prep) else v) for f, v in fl_float.items()}
    state, keys = concrete_state(world, prep, atoms, fl_float)
    fl_exact = {f: Fraction(v) for f, v in fl_float.items()}
    cs = prep.cs
    if task["mode"] == "reapply":
        cs = compose_twice(cs, prep.vars)
    exp_defined = eval_exact(cs.defined, prep, atoms, fl_exact)
    exp_pre = eval_exact(cs.pre, prep, atoms, fl_exact)
    exp_cons = eval_exact(cs.consistent, prep, atoms, fl_exact)
    out = {"expected": {"defined": exp_defined, "pre": exp_pre, "consistent": exp_cons}}
    op = make_operator(world, task)
    if task["mode"] == "applicable":
        try:
            if task.get("after_other_state"):
                of = task.get("other_fluents") or {f: v + 3.5 for f, v in fl_float.items()}
                # the other state defines every fluent (also those the queried state leaves undefined), as in the symbolic run
                other, _ = world.make_state({x: bool(atoms.get(x, False)) for x in prep.sym_atoms},
                                            {f: of.get(f, 0.0) for f in prep.all_fluents})
                _route(world, prep.task, other)
                op.is_applicable(other)
            got = bool(op.is_applicable(state))
            out["observed"] = {"applicable": got}
            out["disagree"] = bool(exp_defined) and got != exp_pre
            if task.get("twin") == "never_applicable":
                out["disagree"] = got is True
        except Exception as e:  # noqa
            out["observed"] = {"exception": f"{type(e).__name__}: {e}"}
            out["disagree"] = bool(exp_defined)
        return out
    # apply
    impose_order_grounded(op, task.get("order"))
    if task.get("after_other_state"):
        of = task.get("other_fluents") or {f: v + 3.5 for f, v in fl_float.items()}
        other, _ = world.make_state({x: bool(atoms.get(x, False)) for x in prep.sym_atoms}, {f: of.get(f, 3.5) for f in prep.all_fluents})
        try:
            op.apply(other, allow_inapplicable_actions=True)
        except Exception:  # noqa
            pass
    before = lib.state_digest(state)
    try:
        nxt = op.apply(state, **task.get("apply_kwargs", {}))
        if task["mode"] == "reapply":  # the same operator object, applied to the state it has just returned
            nxt = op.apply(nxt, **task.get("apply_kwargs", {}))
    except Exception as e:  # noqa
        out["observed"] = {"exception": f"{type(e).__name__}: {e}"}
        out["disagree"] = bool(exp_defined) and bool(exp_pre) and bool(exp_cons)
        return out
    got_atoms = lib.state_atoms(nxt)
    inv = {v: k for k, v in keys.items()}
    got_fl = {inv.get(k, k): f.value for k, f in nxt.state_fluents.items()}
    exp_atoms = set()
    for a in prep.all_atoms:
        t = cs.next_atom.get(a, prep.vars.atom(a))
        if eval_exact(t, prep, atoms, fl_exact):
            exp_atoms.add(a)
    exp_fl = {}
    for f in prep.all_fluents:
        t = cs.next_fluent.get(f, prep.vars.fluent(f))
        exp_fl[f] = eval_exact(t, prep, atoms, fl_exact)
    diffs = []
    if got_atoms != exp_atoms:
        diffs.append({"atoms_only_in_library": sorted(got_atoms - exp_atoms),
                      "atoms_only_in_oracle": sorted(exp_atoms - got_atoms)})
    for f, ev in exp_fl.items():
        gv = got_fl.get(f)
        if gv is None and f in _undefined(prep) and ev == 0:
            continue  # not defined before, not written (or written with 0): absent / zero afterwards
        if gv is None or abs(Fraction(gv) - ev) > Fraction(1, 10 ** 9) * max(1, abs(ev)):
            diffs.append({"fluent": f, "library": gv, "oracle": float(ev)})
    after = lib.state_digest(state)
    if before != after:
        diffs.append({"argument_state_modified": True})
    out["observed"] = {"atoms": sorted(got_atoms), "fluents": {k: v for k, v in got_fl.items()}}
    out["diffs"] = diffs
    out["disagree"] = bool(exp_defined) and bool(exp_pre) and bool(exp_cons) and len(diffs) > 0
    if task.get("twin") == "successor_equals_predecessor":
        out["disagree"] = got_atoms != {a for a, v in atoms.items() if v}
    return out


# ----------------------------------------------------------------------------------------------
# the symbolic run
# ----------------------------------------------------------------------------------------------
def run_task(task) -> dict:
    t0 = time.time()
    res = {"task": {k: task[k] for k in ("action", "args", "mode", "label") if k in task},
           "outcome": "held", "paths": 0, "obligations": 0, "cex": [], "unconfirmed": 0}
    try:
        lib.install_math_shim()
        try:
            prep = Prepared(task)
        except (rpddl.RefUnsupported, rpddl.RefError) as e:
            res["outcome"] = "oracle_unsupported"
            res["detail"] = str(e)
            return res
        if prep.out_of_bound:
            res["outcome"] = "out_of_bound"
            res["detail"] = f"{len(prep.sym_atoms)} relevant atoms"
            return res
        res["sym_atoms"] = len(prep.sym_atoms)
        cs = prep.cs
        mode = task["mode"]
        if mode == "reapply":
            cs = compose_twice(cs, prep.vars)
        stats = Stats()
        reached = [0]
        variants = task.get("known_variants", [])  # list of (finding_id, [variant switches])
        var_cs = {fid: prep.variant_sem(v) for fid, v in variants}
        attributed = {}
        shared_world = [None]  # the domain is parsed once per task; C07 checks that calls do not modify it

        def fn(ctx: Ctx):
            # assumptions first (they are not retroactive)
            if mode == "applicable":
                ok = ctx.assume(cs.defined)
                if ok and task.get("after_other_state"):
                    # the other state, too, defines every fluent and divides by nothing that is zero
                    ok = ctx.assume(z3.substitute(cs.defined, *[(prep.vars.fluent(f), z3.Real("w2" + f)) for f in prep.all_fluents]))
            else:
                ok = ctx.assume(z3.And(cs.defined, cs.pre, cs.consistent))
                if ok and task.get("after_other_state"):
                    w2 = [(prep.vars.fluent(f), z3.Real("w2" + f)) for f in prep.all_fluents]
                    ok = ctx.assume(z3.And(z3.substitute(cs.defined, *w2), z3.substitute(cs.consistent, *w2)))
            for f in _undefined(prep):
                ok = ok and ctx.assume(prep.vars.fluent(f) == 0)
            if not ok:
                return ("vacuous", None, None, None)
            world = shared_world[0]
            if world is None or task.get("fresh_world_per_path"):
                world = make_world(task)
                shared_world[0] = world
            state, keys = build_state(ctx, world, prep)
            op = make_operator(world, task)
            if mode == "applicable":
                if task.get("after_other_state"):
                    # the same operator object has answered a query about another state before: same facts, other values
                    other, _ = world.make_state({a: SymBool(prep.vars.atom(a)) for a in prep.sym_atoms},
                                                {f: SymReal(z3.Real("w2" + f)) for f in prep.all_fluents})
                    op.is_applicable(other)
                r = op.is_applicable(state)
                return ("applicable", bool(r), None, None)
            impose_order_grounded(op, task.get("order"))
            if task.get("after_other_state"):
                # the same operator object was applied before, to a state with the same facts that defines EVERY fluent
                other, _ = world.make_state({a_: SymBool(prep.vars.atom(a_)) for a_ in prep.sym_atoms},
                                            {f: SymReal(z3.Real("w2" + f)) for f in prep.all_fluents})
                op.apply(other, allow_inapplicable_actions=True)
            before = lib.state_digest(state)
            nxt = op.apply(state, **task.get("apply_kwargs", {}))
            if mode == "reapply":
                nxt = op.apply(nxt, **task.get("apply_kwargs", {}))
            after = lib.state_digest(state)
            return ("apply", nxt, keys, (before, after))

        def post_for(c, value, keys):
            """list of (description, z3 obligation) for oracle call-semantics c"""
            obs = []
            if task.get("twin") == "never_applicable":
                return [("TWIN never applicable", z3.BoolVal(value) == z3.BoolVal(False))]
            if task.get("twin") == "successor_equals_predecessor":
                got = lib.state_atoms(value)
                return [(f"TWIN atom {a} unchanged", prep.vars.atom(a) == z3.BoolVal(a in got)) for a in prep.sym_atoms]
            if mode == "applicable":
                obs.append(("applicable == pre", z3.BoolVal(value) == c.pre))
                return obs
            nxt = value
            got = lib.state_atoms(nxt)
            for a in prep.sym_atoms:
                t = c.next_atom.get(a, prep.vars.atom(a))
                obs.append((f"atom {a}", t == z3.BoolVal(a in got)))
            # atoms outside the symbolic slice are absent before the call and never written
            # (every written atom is in the slice): they must be absent afterwards
            extra = got - set(prep.sym_atoms)
            if extra:
                obs.append((f"unexpected atoms {sorted(extra)}", z3.BoolVal(False)))
            inv = {v: k for k, v in keys.items()}
            seen = set()
            for k, f in nxt.state_fluents.items():
                name = inv.get(k)
                if name is None:
                    obs.append((f"unexpected fluent {k}", z3.BoolVal(False)))
                    continue
                seen.add(name)
                t = c.next_fluent.get(name, prep.vars.fluent(name))
                v = f.value
                ve = v.e if isinstance(v, SymReal) else None
                if ve is None:
                    from symx.core import exact
                    ve = exact(v)
                obs.append((f"fluent {name}", ve == t))
            for name in prep.all_fluents:
                if name not in seen:
                    if name in _undefined(prep):
                        # not defined before: absent afterwards is right exactly when nothing wrote it on this path
                        obs.append((f"fluent {name} absent from the successor although written",
                                    c.next_fluent.get(name, prep.vars.fluent(name)) == prep.vars.fluent(name)))
                    else:
                        obs.append((f"fluent {name} missing from successor", z3.BoolVal(False)))
            return obs

        def on_path(ctx: Ctx, pr):
            kind = pr.kind
            if kind == "ok" and pr.value[0] == "vacuous":
                return
            reached[0] += 1
            if kind == "exc":
                e = pr.value
                desc = f"library raised {type(e).__name__}: {e}"
                model = nice_model(ctx, z3.BoolVal(True), [prep.vars.fluent(f) for f in prep.all_fluents])
                record_cex(ctx, model, desc, None)
                return
            _, value, keys, digests = pr.value
            if digests is not None:
                b, a = digests
                if b[0] != a[0] or set(b[1]) != set(a[1]) or any(b[1][k] is not a[1][k] and not _same(ctx, b[1][k], a[1][k]) for k in b[1]):
                    model = nice_model(ctx, z3.BoolVal(True), [prep.vars.fluent(f) for f in prep.all_fluents])
                    record_cex(ctx, model, "argument state modified by apply", None)
            obs = post_for(cs, value, keys)
            res["obligations"] += len(obs)
            post = z3.And([o for _, o in obs]) if obs else z3.BoolVal(True)
            r = ctx.check(z3.Not(post), expect_unsat=True)
            if r == "unknown":
                raise Inconclusive("obligation")
            if r == "unsat":
                return
            failing = [d for d, o in obs if ctx.check(z3.Not(o)) == "sat"]
            # attribute to a known finding?  (library == variant oracle on this whole path)
            for fid, vc in var_cs.items():
                vobs = post_for(vc, value, keys)
                vpost = z3.And([o for _, o in vobs]) if vobs else z3.BoolVal(True)
                # only where the two oracles differ is the attribution meaningful
                if ctx.check(z3.Not(vpost), expect_unsat=True) == "unsat":
                    attributed[fid] = attributed.get(fid, 0) + 1
                    return
            model = nice_model(ctx, z3.Not(post), [prep.vars.fluent(f) for f in prep.all_fluents])
            record_cex(ctx, model, "; ".join(failing[:4]), value if mode == "applicable" else None)

        def _same(ctx, x, y):
            from symx.core import exact
            xe = x.e if isinstance(x, SymReal) else exact(x)
            ye = y.e if isinstance(y, SymReal) else exact(y)
            return ctx.check(xe != ye) == "unsat"

        def record_cex(ctx, model, desc, value):
            if model is None:
                res["unconfirmed"] += 1
                return
            atoms, fls = model_assignment(model, prep)
            fl_float = {f: lib.to_float(v) for f, v in fls.items()}
            rtask = task
            if task.get("after_other_state"):
                from symx.core import zval
                rtask = dict(task, other_fluents={f: lib.to_float(zval(model, z3.Real("w2" + f))) for f in prep.all_fluents})
                res["other_fluents"] = rtask["other_fluents"]
            try:
                rp = replay_concrete(rtask, atoms, fl_float)
            except Exception as e:  # noqa
                rp = {"disagree": False, "replay_error": f"{type(e).__name__}: {e}"}
            if rp.get("disagree"):
                if len(res["cex"]) < 3:
                    res["cex"].append({"what": desc, "atoms_true": sorted(a for a, v in atoms.items() if v),
                                       "fluents": {f: v for f, v in fl_float.items() if v != 0.0},
                                       "replay": _jsonable(rp)})
                res["outcome"] = "violation"
            else:
                res["unconfirmed"] += 1
                if "unconfirmed_sample" not in res:
                    res["unconfirmed_sample"] = {"what": desc, "replay": _jsonable(rp)}

        explore(fn, on_path, stats=stats, max_paths=task.get("max_paths", 4000),
                timeout_ms=task.get("timeout_ms", 4000), time_budget_s=task.get("time_budget_s") or __import__("symx.core", fromlist=["x"]).task_budget())
        res["paths"] = stats.paths
        res["reached"] = reached[0]
        res["stats"] = stats.as_dict()
        if attributed:
            res["attributed"] = attributed
        if reached[0] == 0 and res["outcome"] == "held":
            res["outcome"] = "vacuous"
    except Inconclusive as e:
        res["outcome"] = "inconclusive"
        res["detail"] = f"solver unknown at {e}"
    except PathLimit as e:
        if res["outcome"] != "violation":
            res["outcome"] = "out_of_bound"
        res["detail"] = str(e)
    except Unsupported as e:
        res["outcome"] = "inconclusive"
        res["detail"] = f"unsupported: {e}"
    except Exception as e:  # harness error
        res["outcome"] = "error"
        res["detail"] = f"{type(e).__name__}: {e}\n{traceback.format_exc()[-1500:]}"
    res["wall_s"] = round(time.time() - t0, 3)
    return res


def _jsonable(x):
    if isinstance(x, dict):
        return {str(k): _jsonable(v) for k, v in x.items()}
    if isinstance(x, (list, tuple, set, frozenset)):
        return [_jsonable(v) for v in x]
    if isinstance(x, Fraction):
        return float(x)
    if isinstance(x, (str, int, float, bool)) or x is None:
        return x
    return str(x)
