"""C14 -- states behave as values: equality, copy and serialization agree.

Bounded symbolic execution of the real State.__eq__, State.copy, State.serialize and
TrajectoryParser.parse_state (read-back through the real tokenizer) on two states over a slice of
universe U: membership of each atom in each state and every fluent value are symbolic.  Numbers are
printed through *canonical* placeholder tokens (equal values print alike, distinct values differ),
i.e. under the model "repr is injective on values and float(repr(x)) == x"; -0.0 vs 0.0 is outside it.
"""
import itertools
import json
import logging
import traceback

import z3

from gen import programs as G
from ref import sem as rsem
from symx import core
from symx.core import Ctx, SymBool, SymReal, Stats, explore, Inconclusive, Unsupported, PathLimit
from . import lib, runner

ATOMS = ["(p o1)", "(q o1 o2)", "(q o2 o2)", "(r)"]
# o3 is of type t3, a strict subtype of the declared parameter type t1: the problem parser annotates the fact with the
# declared type, the trajectory parser (given a problem) with the object's own type -- same ground fact, two routes
SUB_ATOMS = ["(p o3)", "(q o3 o1)", "(r)"]
# facts that differ in their second argument only, over a predicate whose parameter names are a prefix of one another
M_ATOMS = ["(m o3 o1)", "(m o3 o2)", "(q o1 o2)"]


via_trajectory_parser = lib.via_trajectory_parser

FLUENTS = ["(f o1)", "(g)", "(h o2 o2)"]


def read_back(world, text):
    """serialize() text -> State through the library's tokenizer and trajectory parser"""
    from pddl_plus_parser.lisp_parsers import PDDLTokenizer, TrajectoryParser
    import pddl_plus_parser.lisp_parsers.trajectory_parser as tp
    ast = PDDLTokenizer(pddl_str=text).parse()
    parser = TrajectoryParser(world.domain, world.problem)
    tp.float = core.sym_float
    try:
        return parser.parse_state(ast[1:])
    finally:
        del tp.float


def run_pair(task):
    res = {"task": task, "outcome": "held", "paths": 0, "obligations": 0, "cex": None}
    stats = Stats()
    try:
        text = G.domain_text([("act", [], ["and"], ["and"])], const=bool(task.get("const")))
        atoms_a = task["atoms"]
        fl_a, fl_b = task["fluents_a"], task["fluents_b"]
        va = {a: z3.Bool("A" + a) for a in atoms_a}
        vb = {a: z3.Bool("B" + a) for a in atoms_a}
        xa = {f: z3.Real("xa" + f) for f in fl_a}
        xb = {f: z3.Real("xb" + f) for f in fl_b}
        same_atoms = z3.And([va[a] == vb[a] for a in atoms_a] + [z3.BoolVal(True)])
        same_fl = z3.And([xa[f] == xb[f] for f in fl_a if f in fl_b] + [z3.BoolVal(set(fl_a) == set(fl_b))])
        equal_spec = z3.And(same_atoms, same_fl)

        def fn(ctx: Ctx):
            ctx.canonical_tags = True
            world = lib.World(text, G.OBJECTS)
            order_b = list(reversed(atoms_a)) if task["reverse_b"] else list(atoms_a)
            sa, _ = world.make_state({a: SymBool(va[a]) for a in atoms_a}, {f: SymReal(xa[f]) for f in fl_a})
            fb = list(reversed(fl_b)) if task["reverse_b"] else list(fl_b)
            sb, _ = world.make_state({a: SymBool(vb[a]) for a in order_b}, {f: SymReal(xb[f]) for f in fb})
            if task.get("route_b") in ("trajectory", "trajectory_without_problem"):
                via_trajectory_parser(world, sb, with_problem=task["route_b"] == "trajectory")
            if task.get("empty_keys"):
                # states built by the parsers and by delete effects hold (possibly empty) sets for predicates without facts
                for s_ in (sa, sb):
                    for pred in world.domain.predicates.values():
                        s_.state_predicates.setdefault(pred.untyped_representation, set())
            out = {}
            out["eq_ab"] = bool(sa == sb)
            out["eq_ba"] = bool(sb == sa)
            out["eq_aa"] = bool(sa == sa)
            ca = sa.copy()
            out["copy_eq"] = bool(ca == sa)
            before = (lib.state_atoms(sa), {k: f.value for k, f in sa.state_fluents.items()})
            # mutate the copy: change a fluent, add a fact, remove a fact
            for f in ca.state_fluents.values():
                f.set_value(f.value + 1)
                break
            gp, key = world.ground_atom("(p o2)")
            ca.state_predicates.setdefault(key, set()).add(gp)
            for k in list(ca.state_predicates):
                if ca.state_predicates[k]:
                    ca.state_predicates[k].pop()
                    break
            after = (lib.state_atoms(sa), {k: f.value for k, f in sa.state_fluents.items()})
            out["independent"] = before[0] == after[0] and set(before[1]) == set(after[1]) and \
                all(before[1][k] is after[1][k] or _same(ctx, before[1][k], after[1][k]) for k in before[1])
            ta, tb = sa.serialize(), sb.serialize()
            ra, rb = read_back(world, ta), read_back(world, tb)
            out["read_eq"] = bool(ra == rb)
            out["read_a_eq_a"] = bool(ra == sa)
            return out

        def on_path(ctx: Ctx, pr):
            if pr.kind == "exc":
                _cex(ctx, res, task, f"raised {type(pr.value).__name__}: {pr.value}", z3.BoolVal(True), va, vb, xa, xb)
                return
            o = pr.value
            obs = [
                ("a == b  <=>  same facts and same fluent values", z3.BoolVal(o["eq_ab"]) == equal_spec),
                ("symmetry", z3.BoolVal(o["eq_ab"] == o["eq_ba"])),
                ("reflexivity", z3.BoolVal(o["eq_aa"])),
                ("copy equals the original", z3.BoolVal(o["copy_eq"])),
                ("mutating the copy leaves the original unchanged", z3.BoolVal(o["independent"])),
                ("serialized texts read back equal  <=>  states equal", z3.BoolVal(o["read_eq"]) == equal_spec),
            ]
            res["obligations"] += len(obs)
            post = z3.And([x for _, x in obs])
            m = ctx.valid(post)
            if m is not None:
                bad = [d for d, x in obs if ctx.check(z3.Not(x)) == "sat"]
                _cex(ctx, res, task, "; ".join(bad[:3]), z3.Not(post), va, vb, xa, xb)

        explore(fn, on_path, stats=stats, max_paths=task.get("max_paths", 20000), timeout_ms=5000)
    except Inconclusive as e:
        res["outcome"], res["detail"] = "inconclusive", str(e)
    except (Unsupported, PathLimit) as e:
        res["outcome"], res["detail"] = "inconclusive", f"{type(e).__name__}: {e}"
    except Exception as e:  # noqa
        res["outcome"], res["detail"] = "error", f"{type(e).__name__}: {e} {traceback.format_exc()[-900:]}"
    res["paths"] = stats.paths
    res["stats"] = stats.as_dict()
    return res


def _same(ctx, x, y):
    xe = x.e if isinstance(x, SymReal) else core.exact(x)
    ye = y.e if isinstance(y, SymReal) else core.exact(y)
    return ctx.check(xe != ye) == "unsat"


def concrete_pair(task, A, B, XA, XB):
    """the real classes on concrete values (real float formatting, real float())"""
    from pddl_plus_parser.lisp_parsers import PDDLTokenizer, TrajectoryParser
    text = G.domain_text([("act", [], ["and"], ["and"])], const=bool(task.get("const")))
    world = lib.World(text, G.OBJECTS)
    atoms_a = task["atoms"]
    order_b = list(reversed(atoms_a)) if task["reverse_b"] else list(atoms_a)
    sa, _ = world.make_state({a: A[a] for a in atoms_a}, dict(XA))
    fb = list(reversed(task["fluents_b"])) if task["reverse_b"] else list(task["fluents_b"])
    sb, _ = world.make_state({a: B[a] for a in order_b}, {f: XB[f] for f in fb})
    if task.get("route_b") in ("trajectory", "trajectory_without_problem"):
        via_trajectory_parser(world, sb, with_problem=task["route_b"] == "trajectory")
    if task.get("empty_keys"):
        for s_ in (sa, sb):
            for pred in world.domain.predicates.values():
                s_.state_predicates.setdefault(pred.untyped_representation, set())
    spec = all(A[a] == B[a] for a in atoms_a) and set(XA) == set(XB) and all(XA[f] == XB[f] for f in XA)
    out = {"spec_equal": spec}
    try:
        out["eq_ab"], out["eq_ba"] = bool(sa == sb), bool(sb == sa)
        ca = sa.copy()
        out["copy_eq"] = bool(ca == sa)
        snap = sa.serialize()
        for f in ca.state_fluents.values():
            f.set_value(f.value + 1)
            break
        gp, key = world.ground_atom("(p o2)")
        ca.state_predicates.setdefault(key, set()).add(gp)
        for k in list(ca.state_predicates):
            if ca.state_predicates[k]:
                ca.state_predicates[k].pop()
                break
        out["independent"] = sa.serialize() == snap

        def rb(s):
            return TrajectoryParser(world.domain, world.problem).parse_state(PDDLTokenizer(pddl_str=s.serialize()).parse()[1:])

        ra, rbb = rb(sa), rb(sb)
        out["read_eq"] = bool(ra == rbb)
        out["read_a_eq_a"] = bool(ra == sa)
        out["disagree"] = (out["eq_ab"] != spec or out["eq_ab"] != out["eq_ba"] or not out["copy_eq"] or not out["independent"]
                           or out["read_eq"] != spec)
    except Exception as e:  # noqa
        out["observed"] = f"{type(e).__name__}: {e}"
        out["disagree"] = True
    return out


def _cex(ctx, res, task, desc, neg, va, vb, xa, xb):
    if res["outcome"] == "violation":
        return
    cons = [neg]
    for v in list(xa.values()) + list(xb.values()):
        cons += [v <= 1000, v >= -1000]
    if ctx.check(*cons) != "sat" and ctx.check(neg) != "sat":
        return
    m = ctx.solver.model()
    A = {a: bool(z3.is_true(m.eval(v, model_completion=True))) for a, v in va.items()}
    B = {a: bool(z3.is_true(m.eval(v, model_completion=True))) for a, v in vb.items()}
    XA = {f: lib.to_float(core.zval(m, v)) for f, v in xa.items()}
    XB = {f: lib.to_float(core.zval(m, v)) for f, v in xb.items()}
    rp = concrete_pair(task, A, B, XA, XB)
    if rp.get("disagree"):
        res["outcome"] = "violation"
        res["cex"] = {"what": desc, "A": A, "B": B, "XA": XA, "XB": XB, "replay": rp}
    else:
        res["unconfirmed"] = res.get("unconfirmed", 0) + 1


def tasks_for(tier):
    tasks = []
    atom_sets = [ATOMS[:3], ATOMS[1:]] if tier == "quick" else [ATOMS, ATOMS[:3], ATOMS[1:]]
    for atoms in atom_sets:
        for fa, fb in ((FLUENTS[:2], FLUENTS[:2]), (FLUENTS[1:], FLUENTS[1:]), (FLUENTS[:2], FLUENTS[:1]), ([], []),
                       (FLUENTS, FLUENTS) if tier == "thorough" else (FLUENTS[2:], FLUENTS[2:])):
            for rev in (False, True):
                tasks.append({"atoms": atoms, "fluents_a": list(fa), "fluents_b": list(fb), "reverse_b": rev,
                              "empty_keys": rev != (len(fa) % 2 == 0)})
    for fa in (FLUENTS[:1], []):
        for rev in (False, True):
            tasks.append({"atoms": M_ATOMS, "fluents_a": list(fa), "fluents_b": list(fa), "reverse_b": rev, "empty_keys": not rev})
    # round 23: one object in THREE argument places (a repetition count clamped at two)
    for fa in (["(w3 o1 o1 o1)", "(g)"], ["(w3 o2 o2 o2)", "(h o2 o2)"]):
        for rev in (False, True):
            tasks.append({"atoms": ATOMS[:2], "fluents_a": list(fa), "fluents_b": list(fa), "reverse_b": rev, "empty_keys": rev})
    tasks.append({"atoms": M_ATOMS, "fluents_a": [], "fluents_b": [], "reverse_b": False, "empty_keys": False, "route_b": "trajectory"})
    # fluents over an object of a strict subtype of the declared parameter type, the second state built without a problem
    # (declared types) / with it (own types); equality must not depend on the annotation nor on the side of ==
    for route in ("trajectory_without_problem", "trajectory"):
        for rev in (False, True):
            tasks.append({"atoms": SUB_ATOMS[:2], "fluents_a": ["(f o3)", "(h o3 o1)"], "fluents_b": ["(f o3)", "(h o3 o1)"],
                          "reverse_b": rev, "empty_keys": rev, "route_b": route})
    # fluents with a repeated argument, the second state rebuilt by the trajectory parser (with / without a problem)
    for route in ("trajectory_without_problem", "trajectory"):
        for rev in (False, True):
            tasks.append({"atoms": ATOMS[1:3], "fluents_a": ["(h o2 o2)", "(f o1)"], "fluents_b": ["(h o2 o2)", "(f o1)"],
                          "reverse_b": rev, "empty_keys": rev, "route_b": route})
    # fluents and facts over the domain constant, the constant BEFORE an object (argument order is part of a fluent's identity)
    for route in ("trajectory", "trajectory_without_problem"):
        for rev in (False, True):
            tasks.append({"atoms": ["(q k o1)", "(p k)"], "fluents_a": ["(h k o1)", "(h o1 k)"], "fluents_b": ["(h k o1)", "(h o1 k)"],
                          "reverse_b": rev, "empty_keys": rev, "route_b": route, "const": True})
    # the two states are built by different routes of the library (problem parser vs trajectory parser with a problem)
    for fa in (FLUENTS[:1], []):
        for rev in (False, True):
            tasks.append({"atoms": SUB_ATOMS, "fluents_a": list(fa), "fluents_b": list(fa), "reverse_b": rev,
                          "empty_keys": rev, "route_b": "trajectory"})
    return tasks


# Successor states: number printing lies outside the symbolic model (values print as placeholder tokens), so whether a state the
# library itself produced -- by applying an action -- is still a value (equal to a state with the same content built by the
# parser, equal to its own text read back) is decided on concrete states: (effect, fluents of the pre-state, fluents expected).
# Undefined fluents read as zero; values are chosen so that results include 0, whole numbers and fractions.
SUCCESSOR_PROBES = [
    (["assign", ["f", "?x"], ["g"]], {"(f o1)": 3.0}, {"(f o1)": 0.0}),
    (["increase", ["f", "?x"], ["g"]], {"(f o1)": 2.5}, {"(f o1)": 2.5}),
    (["assign", ["f", "?x"], ["*", ["g"], "3"]], {"(f o1)": 1.0}, {"(f o1)": 0.0}),
    (["assign", ["f", "?x"], ["h", "?x", "?y"]], {"(f o1)": 1.0, "(g)": 4.0}, {"(f o1)": 0.0, "(g)": 4.0}),
    (["assign", ["f", "?x"], ["-", ["f", "?x"], ["f", "?x"]]], {"(f o1)": 2.5}, {"(f o1)": 0.0}),
    (["decrease", ["f", "?x"], "2.5"], {"(f o1)": 2.5, "(g)": 1.0}, {"(f o1)": 0.0, "(g)": 1.0}),
    (["increase", ["f", "?x"], "1"], {"(f o1)": 2.0}, {"(f o1)": 3.0}),
    (["assign", ["f", "?x"], "7"], {"(f o1)": 2.0}, {"(f o1)": 7.0}),
    (["assign", ["f", "?x"], ["/", ["g"], "4"]], {"(f o1)": 2.0, "(g)": 1.0}, {"(f o1)": 0.25, "(g)": 1.0}),
    (["assign", ["g"], ["+", ["f", "?x"], ["h", "?x", "?y"]]], {"(f o1)": 2.0, "(g)": 1.0}, {"(f o1)": 2.0, "(g)": 2.0}),
    (["and_pair", ["assign", ["f", "?x"], ["g"]], ["increase", ["g"], ["f", "?x"]]], {"(f o1)": 2.0, "(g)": 5.0},
     {"(f o1)": 5.0, "(g)": 7.0}),
]


def successor_probe(i):
    """-> None, or a description of what is wrong with the successor produced by probe i"""
    from pddl_plus_parser.lisp_parsers import PDDLTokenizer, TrajectoryParser
    from pddl_plus_parser.models import Operator
    eff, pre_fl, post_fl = SUCCESSOR_PROBES[i]
    effs = list(eff[1:]) if eff[0] == "and_pair" else [eff]
    text = G.domain_text([("act", [("?x", "t1"), ("?y", "t1")], ["and", ["p", "?x"]], ["and", ["q", "?x", "?y"]] + effs)], const=False)
    world = lib.World(text, G.OBJECTS)
    s0, _ = world.make_state({"(p o1)": True, "(r)": True}, dict(pre_fl))
    op = Operator(world.domain.actions["act"], world.domain, ["o1", "o2"], world.objects)
    s1 = op.apply(s0)
    want, _ = world.make_state({"(p o1)": True, "(r)": True, "(q o1 o2)": True}, dict(post_fl))

    def rb(s):
        return TrajectoryParser(world.domain, world.problem).parse_state(PDDLTokenizer(pddl_str=s.serialize()).parse()[1:])

    got_values = {lib.fluent_name(f): f.value for f in s1.state_fluents.values()}
    if lib.state_atoms(s1) != lib.state_atoms(want) or got_values != post_fl:
        return "SKIP"  # the transition itself is C03's subject; this probe is about states as values
    bad = []
    if not (s1 == want and want == s1):
        bad.append(f"successor and a parsed state with the same facts and values are unequal: {s1.serialize().strip()} / {want.serialize().strip()}")
    back = rb(s1)
    if not (back == s1 and s1 == back):
        bad.append(f"successor is unequal to its own text read back: {s1.serialize().strip()} / {back.serialize().strip()}")
    if not (s1.copy() == s1):
        bad.append("copy of the successor is unequal to it")
    if not (rb(want) == back):
        bad.append("equal states read back unequal")
    # a state is a value: what the operator that produced it does afterwards does not change it
    text, clone = s1.serialize(), s1.copy()
    for again in (s0, s1, clone):
        try:
            op.apply(again, allow_inapplicable_actions=True)
        except Exception:  # noqa
            pass
    if s1.serialize() != text or not (s1 == clone and clone == s1) or not (rb(s1) == back):
        bad.append(f"the successor changed when its operator was applied again: {text.strip()} -> {s1.serialize().strip()}")
    return "; ".join(bad) or None


def twin():
    """a deliberately wrong spec (equality ignores fluent values) must be refuted by a replayable pair"""
    task = {"atoms": ATOMS[:1], "fluents_a": FLUENTS[:1], "fluents_b": FLUENTS[:1], "reverse_b": False}
    rp = concrete_pair(task, {ATOMS[0]: True}, {ATOMS[0]: True}, {FLUENTS[0]: 1.0}, {FLUENTS[0]: 2.0})
    return rp["eq_ab"] is False and not rp["disagree"]


def main(tier):
    rep = runner.Report("C14", tier, "other")
    tasks = tasks_for(tier)
    results = runner.pmap(run_pair, tasks)
    from collections import Counter
    c, agg = Counter(), Counter()
    paths = obligations = nontrivial = unconfirmed = 0
    solver_s = 0.0
    samples = []
    for t, r in zip(tasks, results):
        c[r["outcome"]] += 1
        paths += r["paths"]
        obligations += r["obligations"]
        unconfirmed += r.get("unconfirmed", 0)
        st = r.get("stats") or {}
        for k in runner.STAT_KEYS:
            agg[k] += st.get(k, 0)
        solver_s += st.get("solver_seconds", 0.0)
        if r["paths"] >= 2:
            nontrivial += 1
        if r["outcome"] == "violation":
            cx = r["cex"]
            rep.violation(f"{t}: {cx['what']} with A={[a for a, v in cx['A'].items() if v]} {cx['XA']} B={[a for a, v in cx['B'].items() if v]} {cx['XB']}",
                          {"property": "C14", "kind": "c14", "task": t, "cex": cx})
        elif r["outcome"] == "inconclusive":
            rep.inconclusive.append(f"{t}: {r.get('detail')}")
        elif r["outcome"] == "error":
            rep.errors.append(f"{t}: {r.get('detail')}")
        elif len(samples) < 3 and r["paths"] > 10:
            samples.append({"task": t, "paths": r["paths"], "obligations": r["obligations"]})
    probes_bad = probes_skipped = 0
    for i in range(len(SUCCESSOR_PROBES)):
        try:
            what = successor_probe(i)
        except Exception as e:  # noqa
            what = f"raised {type(e).__name__}: {e}"
        if what == "SKIP":
            probes_skipped += 1
        elif what:
            probes_bad += 1
            rep.violation(f"successor probe {i} {SUCCESSOR_PROBES[i][0]}: {what}", {"property": "C14", "kind": "c14_probe", "probe": i})
    if not twin():
        rep.twins_failed.append("vacuity twin failed")
    q = dict(agg)
    q["solver_seconds"] = round(solver_s, 2)
    rep.coverage.update({
        "evaluations": len(tasks), "distinct_nontrivial": nontrivial,
        "rule": "one evaluation = one (atom slice, fluent sets of the two states, insertion order) explored over all feasible paths "
                "with every membership bit and every fluent value symbolic; non-trivial = >=2 feasible paths",
        "samples": samples or [{"note": "none"}], "outcomes": dict(c), "paths": paths, "obligations": obligations, "queries": q,
        "unconfirmed_counterexamples": unconfirmed, "exhaustive": True,
        "concrete_successor_probes": {"count": len(SUCCESSOR_PROBES), "failed": probes_bad, "skipped_because_the_transition_differs": probes_skipped,
                                      "what": "states produced by Operator.apply (effects reading undefined fluents, results 0 / whole / fractional) compared with "
                                              "parsed states of the same content and with their own text read back; concrete because number printing is outside the symbolic model"},
        "bounds": {"atoms": "3-4 ground atoms per state (unary, binary, repeated-argument, zero-arity)", "fluents": "0-3 fluents "
                   "(unary, zero-arity, repeated-argument), equal or different fluent sets", "orders": "same / reversed insertion order", "routes": "both states by the problem parser; or the second by the trajectory parser with a problem (facts of a subtype object carry the object's own type)",
                   "outside": "-0.0 vs 0.0, NaN; larger states (the boolean part is decided at state construction; the solver's "
                              "contribution is the value-equality dimension and exhaustiveness)"},
        "functions_executed_symbolically": ["State.__eq__", "State.copy", "State.serialize", "GroundedPredicate.copy/__hash__/"
                                            "untyped_representation", "PDDLFunction.copy/state_representation", "PDDLTokenizer.parse",
                                            "TrajectoryParser.parse_state/parse_grounded_predicate/parse_grounded_numeric_fluent"],
        "shims": ["str(number) -> canonical placeholder token (equal values print alike)", "float(token) in trajectory_parser -> the value"],
    })
    rep.assumptions += ["repr(float) is injective on values and float(repr(x)) == x", "real arithmetic"]
    return rep.finish(total=len(tasks))


def replay(payload, path):
    if payload.get("kind") == "c14_probe":
        what = successor_probe(payload["probe"])
        print(what)
        if what and what != "SKIP":
            print(f"VIOLATION property=C14 replay={path}")
            return 1
        print("does not reproduce")
        return 0
    cx = payload["cex"]
    rp = concrete_pair(payload["task"], cx["A"], cx["B"], cx["XA"], cx["XB"])
    print(json.dumps(rp, indent=1, default=str))
    if rp["disagree"]:
        print(f"VIOLATION property=C14 replay={path}")
        return 1
    print("does not reproduce")
    return 0
