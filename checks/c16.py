"""C16 -- a joint action acts like its members applied one after another, in any order.

Bounded symbolic execution of the real multi_agent.common.apply_actions and
MultiAgentTrajectoryExporter.create_multi_agent_triplet / parse_plan / export from one symbolic state
(atom membership and fluent values symbolic).  Oracle: composition of the members' PDDL semantics
(ref.sem) by substitution.  Under the assumption "every member is applicable at its turn in every
order and all orders reach the same state" (semantic non-interference) z3 must show that the joint
result equals the sequential result; the library's own chained Operator.apply in each permutation
must give the same state; if some member is inapplicable in the current state the call must raise
unless inapplicable actions are allowed; nop entries change nothing; the exported text has one
'operators:' line per joint action and chained states.
"""
import itertools
import json
import random
import time
import traceback

import z3

from gen import programs as G
from ref import sexpr
from symx import rex
from symx.core import Ctx, SymBool, SymReal, Stats, explore, Inconclusive, Unsupported, PathLimit
from symx.text import SymStr, SymChar
from . import lib, runner, callsym, seqsem

AGENTS = ["o1", "o2", "o3"]


def _budget():
    from symx.core import task_budget
    return task_budget()


def joint_line(slots):
    return "[" + ",".join("(nop )" if s is None else "(" + " ".join([s[0]] + list(s[1])) + ")" for s in slots) + "]"


def candidate_joint_actions(tier, seed):
    """lists of slots (one per agent, None = nop)"""
    rng = random.Random(seed * 41 + 3)
    per_agent = {}
    items = ["o1", "o2", "o3"]
    for a in AGENTS:
        opts = []
        for i in items:
            opts += [("take", [a, i]), ("drop", [a, i])]
            for j in items:
                if i != j:
                    opts.append(("burn", [a, i, j]))
        opts += [("sweep", [a]), ("flag", [a]), ("charge", [a]), ("audit", [a])]
        per_agent[a] = opts
    out = []
    curated = [
        [("take", ["o1", "o2"]), ("drop", ["o2", "o3"]), None],
        [("take", ["o1", "o3"]), None, ("flag", ["o3"])],
        [("sweep", ["o1"]), ("take", ["o2", "o3"]), None],
        [("sweep", ["o1"]), ("sweep", ["o2"]), ("flag", ["o3"])],
        [("burn", ["o1", "o2", "o3"]), ("charge", ["o2"]), None],
        [("take", ["o1", "o2"]), ("burn", ["o2", "o3", "o2"]), None],  # interfering: assumed away / refusal side
        [None, ("flag", ["o2"]), None],
        [None, None, None],
        [("charge", ["o1"]), ("charge", ["o2"]), None],
        [("flag", ["o1"]), ("flag", ["o2"]), ("flag", ["o3"])],
        [("take", ["o1", "o3"]), None, ("drop", ["o3", "o2"])],
        [("audit", ["o1"]), ("flag", ["o2"]), None],
        [("flag", ["o1"]), ("audit", ["o2"]), ("audit", ["o3"])],
        [None, ("audit", ["o2"]), None],
    ]
    out += curated
    n = 90 if tier == "quick" else 800
    while len(out) < len(curated) + n:
        k = rng.choice([1, 2, 2, 3]) if tier == "quick" else rng.choice([1, 2, 2, 3, 3])
        agents = rng.sample(AGENTS, k)
        slots = [None, None, None]
        for a in agents:
            slots[AGENTS.index(a)] = rng.choice(per_agent[a])
        out.append(slots)
    return out


class _Direct:
    """result of a direct apply_actions call, shaped like a triplet"""

    def __init__(self, next_state, n):
        self.next_state, self.joint_action = next_state, [None] * n


def _apply_joint(world, state, slots, allow, direct):
    """through the exporter (which strips the nop entries before it calls apply_actions), or apply_actions called directly
    with the joint action as it stands, nop entries included"""
    from pddl_plus_parser.models import ActionCall
    from pddl_plus_parser.multi_agent.common import apply_actions
    from pddl_plus_parser.multi_agent import MultiAgentTrajectoryExporter
    if not direct:
        return MultiAgentTrajectoryExporter(world.domain).create_multi_agent_triplet(
            state, joint_line(slots), world.objects, allow_inapplicable_actions=allow)
    calls = [ActionCall(name="nop", grounded_parameters=[]) if s is None else ActionCall(name=s[0], grounded_parameters=list(s[1]))
             for s in slots]
    nxt = apply_actions(world.domain, state, calls, allow_inapplicable_actions=allow, problem_objects=world.objects)
    return _Direct(nxt, len(slots))


def _warm_up(slots, direct):
    """the same joint line executed first, in this process, against ANOTHER domain that uses the same action names (the
    bodies exchanged between the actions) and a larger object set: what a process that handles a revised domain or a second
    problem does.  Its result is ignored; the checked execution that follows must not depend on it."""
    by_name = {a[0]: a for a in seqsem.MA_ACTIONS}
    swap = {"take": "drop", "drop": "take", "sweep": "flag", "flag": "audit", "audit": "charge", "charge": "sweep", "burn": "burn"}
    variant = []
    for n, params, pre, eff in seqsem.MA_ACTIONS:
        _, p2, pre2, eff2 = by_name[swap.get(n, n)]
        if n == "burn":
            pre2, eff2 = ["and", ["p", "?i"]], ["and", ["p", "?j"], ["not", ["q", "?a", "?i"]], ["decrease", ["g"], "3"]]
        variant.append((n, params, pre2, eff2))
    text2 = seqsem.ma_domain_text(actions=variant)
    objects2 = dict(G.OBJECTS)
    objects2["o9"] = "t1"
    world2 = lib.World(text2, objects2)
    atoms = {a: True for a in ["(p o1)", "(p o2)", "(p o3)", "(p o9)", "(q o1 o2)", "(q o2 o3)", "(q o3 o9)", "(q o1 o9)", "(r)"]}
    state, _ = world2.make_state(atoms, {"(f o1)": 1.0, "(f o2)": 2.0, "(f o3)": 3.0, "(g)": 4.0})
    try:
        _apply_joint(world2, state, slots, True, direct)
    except Exception:  # noqa  (whatever the other domain makes of this line is not the subject)
        pass


def run_joint(task):
    from pddl_plus_parser.models import ActionCall, Operator
    from pddl_plus_parser.multi_agent.common import apply_actions
    from pddl_plus_parser.multi_agent import MultiAgentTrajectoryExporter
    res = {"task": task, "outcome": "held", "paths": 0, "obligations": 0, "cex": None, "reached": 0}
    stats = Stats()
    try:
        lib.install_math_shim()
        text = seqsem.ma_domain_text()
        comp = seqsem.Composer(text, G.OBJECTS)
        slots = task["slots"]
        calls = [(s[0], list(s[1])) for s in slots if s is not None]
        atoms, fluents = comp.touched(calls)
        universe_atoms = lib.universe_atoms(comp.rd.predicates, G.OBJECTS, {}, comp.rd.is_subtype)
        frame = [a for a in universe_atoms if a not in atoms][:1]
        sym_atoms = atoms + frame
        if len(sym_atoms) > task.get("cap", 9):
            res["outcome"] = "out_of_bound"
            return res
        fl_all = fluents + [f for f in ["(g)", "(f o1)"] if f not in fluents][:1]
        mode = task["mode"]
        all_pre0 = z3.And([z3.BoolVal(True)] + [comp.call(n, a).pre for n, a in calls])
        dfn0 = z3.And([z3.BoolVal(True)] + [comp.call(n, a).defined for n, a in calls])
        if mode == "joint":
            assumption = comp.non_interfering(calls) if calls else z3.BoolVal(True)
        elif mode == "refuse":
            assumption = z3.And(z3.Not(all_pre0), dfn0)
        else:  # allowed
            assumption = z3.And(z3.Not(all_pre0), dfn0)
        seq = comp.sequence(calls)
        world_holder = [None]

        def fn(ctx: Ctx):
            if not ctx.assume(assumption):
                return None
            if world_holder[0] is None:
                world_holder[0] = lib.World(text, G.OBJECTS)
                if task.get("warmup"):
                    _warm_up(slots, task.get("direct"))
            world = world_holder[0]
            state, keys = seqsem.symbolic_state(world, comp, sym_atoms, fl_all, is_init=bool(task.get("init_state")))
            before = lib.state_digest(state)
            flag_before, text_before = state.is_init, None
            try:
                trip = _apply_joint(world, state, slots, mode == "allowed", task.get("direct"))
                out = ("ok", trip.next_state, len(trip.joint_action))
                if trip.next_state is state:
                    raise AssertionError("the joint action returned the very state object it was given")
            except Exception as e:  # noqa
                if not lib.is_refusal(e):
                    raise
                out = ("refused", f"{type(e).__name__}: {e}", 0)
            extra = None
            if mode == "joint" and out[0] == "ok" and task.get("chain_orders"):
                # the library's own sequential application, in the given permutations
                extra = []
                for order in task["chain_orders"]:
                    s = state
                    for i in order:
                        n, a = calls[i]
                        s = Operator(world.domain.actions[n], world.domain, list(a), world.objects).apply(s)
                    extra.append(s)
            after = lib.state_digest(state)
            return out, keys, extra, (before[0] == after[0] and set(before[1]) == set(after[1]) and state.is_init == flag_before)

        def on_path(ctx: Ctx, pr):
            if pr.kind == "exc":
                _cex(ctx, res, task, comp, sym_atoms, fl_all, f"raised {type(pr.value).__name__}: {pr.value}", z3.BoolVal(True))
                return
            if pr.value is None:
                return
            res["reached"] += 1
            out, keys, extra, untouched = pr.value
            if not untouched:
                _cex(ctx, res, task, comp, sym_atoms, fl_all, "the argument state was modified", z3.BoolVal(True))
                return
            if mode == "refuse":
                res["obligations"] += 1
                if out[0] != "refused":
                    _cex(ctx, res, task, comp, sym_atoms, fl_all, "a joint action with an inapplicable member was not refused",
                         z3.BoolVal(True))
                return
            if mode == "allowed":
                res["obligations"] += 1
                if out[0] != "ok":
                    _cex(ctx, res, task, comp, sym_atoms, fl_all, "refused although inapplicable actions were allowed", z3.BoolVal(True))
                return
            if out[0] != "ok":
                _cex(ctx, res, task, comp, sym_atoms, fl_all, f"applicable, non-interfering joint action refused: {out[1]}", z3.BoolVal(True))
                return
            if out[2] != len(slots):
                _cex(ctx, res, task, comp, sym_atoms, fl_all, f"{out[2]} operators in the triplet for {len(slots)} slots", z3.BoolVal(True))
                return
            obs = seqsem.state_obligations(comp, out[1], keys, sym_atoms, fl_all, seq[3], seq[4])
            for k, s in enumerate(extra or []):
                obs += [(f"chained order {task['chain_orders'][k]}: {d}", o)
                        for d, o in seqsem.state_obligations(comp, s, keys, sym_atoms, fl_all, seq[3], seq[4])]
            res["obligations"] += len(obs)
            post = z3.And([o for _, o in obs])
            r = ctx.check(z3.Not(post), expect_unsat=True)
            if r == "unknown":
                raise Inconclusive("obligation")
            if r == "sat":
                bad = [d for d, o in obs if ctx.check(z3.Not(o)) == "sat"]
                _cex(ctx, res, task, comp, sym_atoms, fl_all, "joint result differs from the sequential result: " + "; ".join(bad[:3]),
                     z3.Not(post))

        explore(fn, on_path, stats=stats, max_paths=task.get("max_paths", 3000), timeout_ms=task.get("timeout_ms", 5000), time_budget_s=_budget())
        if res["reached"] == 0 and res["outcome"] == "held":
            res["outcome"] = "vacuous"
    except Inconclusive as e:
        res["outcome"], res["detail"] = "inconclusive", str(e)
    except PathLimit as e:
        if res["outcome"] != "violation":
            res["outcome"], res["detail"] = "out_of_bound", str(e)
    except Unsupported as e:
        res["outcome"], res["detail"] = "inconclusive", f"unsupported: {e}"
    except Exception as e:  # noqa
        res["outcome"], res["detail"] = "error", f"{type(e).__name__}: {e} {traceback.format_exc()[-900:]}"
    res["paths"] = stats.paths
    res["stats"] = stats.as_dict()
    return res


def replay_joint(task, atoms, fls):
    """concrete run of the real exporter against the exact oracle"""
    from pddl_plus_parser.multi_agent import MultiAgentTrajectoryExporter
    text = seqsem.ma_domain_text()
    comp = seqsem.Composer(text, G.OBJECTS)
    slots = task["slots"]
    calls = [(s[0], list(s[1])) for s in slots if s is not None]
    world = lib.World(text, G.OBJECTS)
    if task.get("warmup"):
        _warm_up(slots, task.get("direct"))
    state, keys = world.make_state({a: v for a, v in atoms.items()}, dict(fls))
    sym_atoms, fl_all = list(atoms), list(fls)
    seq = comp.sequence(calls)
    exp_atoms, exp_fl, ev = seqsem.eval_state_exact(comp, seq[3], seq[4], sym_atoms, fl_all, atoms, fls)
    all_pre0 = all(ev(comp.call(n, a).pre) for n, a in calls)
    nonint = ev(comp.non_interfering(calls)) if calls else True
    mode = task["mode"]
    out = {"expected": {"all_members_applicable": all_pre0, "non_interfering": nonint}}
    try:
        trip = _apply_joint(world, state, slots, mode == "allowed", task.get("direct"))
        got_atoms = lib.state_atoms(trip.next_state)
        inv = {v: k for k, v in keys.items()}
        got_fl = {inv.get(k, k): f.value for k, f in trip.next_state.state_fluents.items()}
        out["observed"] = {"atoms": sorted(got_atoms), "fluents": got_fl}
        if mode == "refuse":
            out["disagree"] = not all_pre0
        elif mode == "allowed":
            out["disagree"] = False
        else:
            from fractions import Fraction
            diffs = []
            if got_atoms != exp_atoms:
                diffs.append({"only_library": sorted(got_atoms - exp_atoms), "only_oracle": sorted(exp_atoms - got_atoms)})
            for f, ev_ in exp_fl.items():
                gv = got_fl.get(f)
                if gv is None or abs(Fraction(gv) - ev_) > Fraction(1, 10 ** 9) * max(1, abs(ev_)):
                    diffs.append({"fluent": f, "library": gv, "oracle": float(ev_)})
            out["diffs"] = diffs
            out["disagree"] = bool(nonint) and bool(diffs)
    except Exception as e:  # noqa
        out["observed"] = {"refused": f"{type(e).__name__}: {e}"}
        out["disagree"] = (mode == "allowed") or (mode == "joint" and bool(nonint))
    return out


def _cex(ctx, res, task, comp, sym_atoms, fl_all, desc, neg):
    if res["outcome"] == "violation":
        return
    model = callsym.nice_model(ctx, neg, [comp.vars.fluent(f) for f in fl_all])
    if model is None:
        return
    atoms, fls = seqsem.model_state(model, comp, sym_atoms, fl_all)
    rp = replay_joint(task, atoms, fls)
    if rp.get("disagree"):
        res["outcome"] = "violation"
        res["cex"] = {"what": desc, "atoms": atoms, "fluents": fls, "replay": callsym._jsonable(rp)}
    else:
        res["unconfirmed"] = res.get("unconfirmed", 0) + 1
        res.setdefault("unconfirmed_sample", {"what": desc, "replay": callsym._jsonable(rp)})


# ---------------------------------------------------------------------------------------------
def run_export(task):
    """parse_plan + export on a symbolic initial state: one 'operators:' line per joint action, chained states"""
    from pddl_plus_parser.multi_agent import MultiAgentTrajectoryExporter
    res = {"task": task, "outcome": "held", "paths": 0, "obligations": 0, "cex": None, "reached": 0}
    stats = Stats()
    try:
        lib.install_math_shim()
        text = seqsem.ma_domain_text()
        comp = seqsem.Composer(text, G.OBJECTS)
        plan = task["plan"]  # list of slot lists
        flat = [[(s[0], list(s[1])) for s in slots if s is not None] for slots in plan]
        allcalls = [c for step in flat for c in step]
        atoms, fluents = comp.touched(allcalls)
        if len(atoms) > task.get("cap", 9):
            res["outcome"] = "out_of_bound"
            return res
        # assumption: every joint step is non-interfering and applicable at its turn
        sa, sf = comp.identity()
        conj = []
        states = []
        for step in flat:
            # non-interference of the step in the state reached so far
            ni = comp._subst(comp.non_interfering(step), sa, sf) if step else z3.BoolVal(True)
            conj.append(ni)
            for n, a in step:
                _, _, _, sa, sf = comp.step(sa, sf, n, a)
            states.append((dict(sa), dict(sf)))
        assumption = z3.And(conj)

        def fn(ctx: Ctx):
            if not ctx.assume(assumption):
                return None
            world = lib.World(text, G.OBJECTS)
            state, keys = seqsem.symbolic_state(world, comp, atoms, fluents, is_init=True)
            world.problem.initial_state_predicates = state.state_predicates
            world.problem.initial_state_fluents = state.state_fluents
            exporter = MultiAgentTrajectoryExporter(world.domain)
            if task.get("plan_file"):
                # the public entry point with a plan FILE: one joint action per line (all-nop lines included)
                path = lib.write_tmp("\n".join(joint_line(s) for s in plan) + ("\n" if task["plan_file"] == "newline" else ""), ".plan")
                try:
                    trips = exporter.parse_plan(world.problem, plan_path=path)
                finally:
                    path.unlink()
            else:
                trips = exporter.parse_plan(world.problem, action_sequence=[joint_line(s) for s in plan])
            lines = exporter.export(trips)
            return trips, lines, keys

        def on_path(ctx: Ctx, pr):
            if pr.kind == "exc":
                res["outcome"] = "violation" if isinstance(pr.value, ValueError) else "error"
                res["cex"] = {"what": f"raised {type(pr.value).__name__}: {pr.value}"}
                return
            if pr.value is None:
                return
            res["reached"] += 1
            trips, lines, keys = pr.value
            problems = []
            if len(trips) != len(plan):
                problems.append(f"{len(trips)} triplets for {len(plan)} joint actions")
            if len(lines) != 1 + 2 * len(plan):
                problems.append(f"{len(lines)} exported lines")
            if sum(1 for l in lines if l.startswith("(operators:")) != len(plan):
                problems.append("not one 'operators:' line per joint action")
            if len(lines) == 1 + 2 * len(plan) and (not lines[0].startswith("((:init") or any(
                    not lines[2 + 2 * i].startswith("(:state") for i in range(len(plan)))):
                problems.append("exported text: the first state must be printed as ':init' and every later one as ':state'")
            for i, trp in enumerate(trips):
                if trp.next_state.is_init or trp.previous_state.is_init != (i == 0):
                    problems.append(f"step {i}: is_init flags pre={trp.previous_state.is_init} post={trp.next_state.is_init}")
            for i in range(1, len(trips)):
                if trips[i].previous_state is not trips[i - 1].next_state and not (trips[i].previous_state == trips[i - 1].next_state):
                    problems.append(f"step {i}: pre-state is not the preceding post-state")
            obs = []
            for i, trp in enumerate(trips):
                obs += [(f"step {i}: {d}", o) for d, o in
                        seqsem.state_obligations(comp, trp.next_state, keys, atoms, fluents, states[i][0], states[i][1])]
            res["obligations"] += len(obs) + 4
            if problems:
                res["outcome"] = "violation"
                res["cex"] = {"what": "; ".join(problems)}
                return
            r = ctx.check(z3.Not(z3.And([o for _, o in obs])), expect_unsat=True)
            if r == "unknown":
                raise Inconclusive("obligation")
            if r == "sat" and res["outcome"] != "violation":
                bad = [d for d, o in obs if ctx.check(z3.Not(o)) == "sat"]
                res["outcome"] = "violation"
                m = ctx.solver.model()
                a_, f_ = seqsem.model_state(m, comp, atoms, fluents)
                res["cex"] = {"what": "trajectory state differs: " + "; ".join(bad[:3]), "atoms": a_, "fluents": f_}

        explore(fn, on_path, stats=stats, max_paths=task.get("max_paths", 3000), timeout_ms=5000, time_budget_s=_budget())
        if res["reached"] == 0 and res["outcome"] == "held":
            res["outcome"] = "vacuous"
    except Inconclusive as e:
        res["outcome"], res["detail"] = "inconclusive", str(e)
    except PathLimit as e:
        if res["outcome"] != "violation":
            res["outcome"], res["detail"] = "out_of_bound", str(e)
    except Exception as e:  # noqa
        res["outcome"], res["detail"] = "error", f"{type(e).__name__}: {e} {traceback.format_exc()[-900:]}"
    res["paths"] = stats.paths
    res["stats"] = stats.as_dict()
    return res


def run_regex(task):
    """parse_action_call on a joint line whose names/arguments are symbolic characters"""
    import pddl_plus_parser.multi_agent.multi_agent_trajectory_exporter as mx
    from .c19 import name_char
    res = {"task": task, "outcome": "held", "paths": 0, "obligations": 0, "cex": None, "reached": 0}
    stats = Stats()
    shape = task["shape"]  # list of list of word lengths, None = nop

    def fn(ctx: Ctx):
        cons, words_all, parts = [], [], []
        for si, lens in enumerate(shape):
            if lens is None:
                parts.append("(nop )")
                words_all.append(["nop"])
                continue
            ws = []
            for wi, ln in enumerate(lens):
                vs = [z3.Int(f"j{si}w{wi}c{k}") for k in range(ln)]
                cons += [name_char(v) for v in vs]
                ws.append(SymStr([SymChar(v) for v in vs]))
            words_all.append(ws)
            piece = SymStr.of("(") + ws[0]
            for w in ws[1:]:
                piece = piece + " " + w
            parts.append(piece + ")")
        if not ctx.assume(z3.And(cons) if cons else z3.BoolVal(True)):
            return None
        line = SymStr.of("[")
        for i, p in enumerate(parts):
            line = line + p + ("," if i + 1 < len(parts) else "")
        line = line + "]"
        rex.install(mx, _REX)
        return words_all, mx.parse_action_call(line)

    def on_path(ctx: Ctx, pr):
        if pr.kind == "exc":
            res["outcome"] = "violation"
            res["cex"] = {"what": f"parse_action_call raised {type(pr.value).__name__}: {pr.value}"}
            return
        if pr.value is None:
            return
        res["reached"] += 1
        words_all, joint = pr.value
        res["obligations"] += 1
        ok = len(joint.actions) == len(words_all)
        parts = [z3.BoolVal(ok)]
        if ok:
            for ws, ac in zip(words_all, joint.actions):
                got = [ac.name] + list(ac.parameters)
                if len(got) != len(ws):
                    parts.append(z3.BoolVal(False))
                    continue
                for g, w in zip(got, ws):
                    gs = g if isinstance(g, SymStr) else SymStr.of(g)
                    parts.append(gs.eqz(w))
        if ctx.valid(z3.And(parts)) is not None and res["outcome"] != "violation":
            res["outcome"] = "violation"
            res["cex"] = {"what": "joint line split differently from its parenthesised members"}

    try:
        explore(fn, on_path, stats=stats, max_paths=50000, timeout_ms=5000)
    except (Inconclusive, Unsupported, PathLimit) as e:
        res["outcome"], res["detail"] = "inconclusive", f"{type(e).__name__}: {e}"
    except Exception as e:  # noqa
        res["outcome"], res["detail"] = "error", f"{type(e).__name__}: {e} {traceback.format_exc()[-600:]}"
    res["paths"] = stats.paths
    res["stats"] = stats.as_dict()
    return res


_REX = rex.module()


def tasks_for(tier, seed):
    tasks = []
    for slots in candidate_joint_actions(tier, seed):
        k = sum(1 for s in slots if s is not None)
        orders = []
        if k >= 2:
            perms = list(itertools.permutations(range(k)))
            orders = perms if tier == "thorough" else [perms[0], perms[-1]]
        tasks.append({"kind": "joint", "mode": "joint", "slots": slots, "chain_orders": [list(o) for o in orders],
                      "cap": 9 if tier == "quick" else 12, "max_paths": 3000 if tier == "quick" else 30000})
        if k >= 1 and (len(tasks) % 3 == 0 or tier == "thorough"):
            # the same line after this process executed it against another domain / a larger problem with the same action names
            tasks.append({"kind": "joint", "mode": "joint", "slots": slots, "chain_orders": [], "warmup": True, "direct": len(tasks) % 2 == 0,
                          "cap": 9 if tier == "quick" else 12, "max_paths": 3000 if tier == "quick" else 30000})
        if None in slots and k >= 1 and (len(tasks) % 2 == 0 or tier == "thorough"):
            # apply_actions called directly, the nop entries still in the list (leading, in between, trailing)
            tasks.append({"kind": "joint", "mode": "joint", "slots": slots, "chain_orders": [], "direct": True,
                          "cap": 9 if tier == "quick" else 12, "max_paths": 3000 if tier == "quick" else 30000})
            tasks.append({"kind": "joint", "mode": "refuse", "slots": slots, "direct": True, "cap": 9 if tier == "quick" else 12})
        if k == 0 or len(tasks) % 5 == 0:
            # from a state that is flagged as the initial state (the argument keeps its flag, the result is another object)
            for direct in (False, True):
                tasks.append({"kind": "joint", "mode": "joint", "slots": slots, "chain_orders": [], "direct": direct, "init_state": True,
                              "cap": 9 if tier == "quick" else 12, "max_paths": 3000 if tier == "quick" else 30000})
        if k >= 1:
            tasks.append({"kind": "joint", "mode": "refuse", "slots": slots, "cap": 9 if tier == "quick" else 12})
            tasks.append({"kind": "joint", "mode": "allowed", "slots": slots, "cap": 9 if tier == "quick" else 12})
    plans = [
        [[("take", ["o1", "o2"]), None, None], [None, ("flag", ["o2"]), None]],
        [[("take", ["o1", "o2"]), ("take", ["o2", "o3"]), None], [("drop", ["o1", "o2"]), None, None], [None, None, None]],
        [[("sweep", ["o1"]), None, None], [("flag", ["o1"]), ("charge", ["o2"]), None]],
        [[None, None, None], [("flag", ["o1"]), None, None]],  # the trajectory opens with a step in which nobody acts
    ]
    for i, p in enumerate(plans):
        tasks.append({"kind": "export", "plan": p, "cap": 9})
        tasks.append({"kind": "export", "plan": p, "cap": 9, "plan_file": "newline" if i % 2 else "no_newline"})
    for shape in ([[1, 1], None], [[2], [1, 1, 1]], [None, [1, 2], [1]], [[1]], [[1, 1], [1, 1]]):
        tasks.append({"kind": "regex", "shape": shape})
    return tasks


def _dispatch(t):
    return {"joint": run_joint, "export": run_export, "regex": run_regex}[t["kind"]](t)


def twin():
    """an interfering pair must NOT satisfy the non-interference assumption trivially, and a deliberately wrong
    expectation (joint == state unchanged) must be refuted"""
    comp = seqsem.Composer(seqsem.ma_domain_text(), G.OBJECTS)
    calls = [("take", ["o1", "o2"]), ("drop", ["o2", "o3"])]
    seq = comp.sequence(calls)
    s = z3.Solver()
    s.add(comp.non_interfering(calls))
    s.add(comp.same_state(seq[3], seq[4], {}, {}))  # "nothing changes"
    return s.check() == z3.unsat


def main(tier):
    rep = runner.Report("C16", tier, "other")
    tasks = tasks_for(tier, runner.seed())
    results = runner.pmap(_dispatch, tasks)
    from collections import Counter
    c, agg = Counter(), Counter()
    paths = obligations = nontrivial = unconfirmed = 0
    solver_s = 0.0
    samples = []
    for t, r in zip(tasks, results):
        c[f"{t['kind']}:{t.get('mode', '')}:{r['outcome']}"] += 1
        paths += r["paths"]
        obligations += r["obligations"]
        unconfirmed += r.get("unconfirmed", 0)
        st = r.get("stats") or {}
        for k in runner.STAT_KEYS:
            agg[k] += st.get(k, 0)
        solver_s += st.get("solver_seconds", 0.0)
        if r["paths"] >= 2:
            nontrivial += 1
        label = json.dumps({k: v for k, v in t.items() if k in ("kind", "mode", "slots", "plan", "shape")})
        if r["outcome"] == "violation":
            rep.violation(f"{label}: {r['cex']['what']}" + (f" in the state {[a for a, v in r['cex'].get('atoms', {}).items() if v]} "
                                                           f"{ {k: v for k, v in r['cex'].get('fluents', {}).items() if v} }" if r["cex"].get("atoms") is not None else ""),
                          {"property": "C16", "kind": "c16", "task": t, "cex": r["cex"]})
        elif r["outcome"] == "inconclusive":
            rep.inconclusive.append(f"{label}: {r.get('detail')}")
        elif r["outcome"] == "error":
            rep.errors.append(f"{label}: {r.get('detail')}")
        elif r["outcome"] == "held" and len(samples) < 4 and r["paths"] >= 4:
            samples.append({"task": json.loads(label), "paths": r["paths"], "obligations": r["obligations"]})
    if not twin():
        rep.twins_failed.append("vacuity twin failed")
    q = dict(agg)
    q["solver_seconds"] = round(solver_s, 2)
    rep.coverage.update({
        "evaluations": len(tasks), "distinct_nontrivial": nontrivial,
        "rule": "one evaluation = one (joint action with nop padding, mode) or (joint plan) or (joint-line shape) explored over all "
                "feasible paths from a symbolic state; non-trivial = >=2 feasible paths",
        "samples": samples or [{"note": "none"}], "outcomes": dict(c), "paths": paths, "obligations": obligations, "queries": q,
        "unconfirmed_counterexamples": unconfirmed, "exhaustive": False,
        "bounds": {"domain": "6 actions (STRIPS, numeric, conditional, universal effects) over universe U, agents o1 o2 o3",
                   "members": "1-3 non-nop members, one slot per agent, nop at every unused slot", "permutations": "joint vs "
                   "sequential oracle in every order (assumption), library chain in first and last permutation (quick) / all (thorough)",
                   "outside": "4 members; real threads; float rounding"},
        "functions_executed_symbolically": ["multi_agent.common.apply_actions", "MultiAgentTrajectoryExporter.create_multi_agent_triplet/"
                                            "parse_plan/export", "multi_agent_trajectory_exporter.parse_action_call", "Operator.apply/is_applicable"],
    })
    rep.assumptions += ["semantic non-interference: every member applicable at its turn in every order, all orders reach the same "
                        "state, effects consistent (asserted before execution; vacuous tasks counted)", "ref.sem composition oracle"]
    return rep.finish(total=len(tasks))


def replay(payload, path):
    t, cx = payload["task"], payload["cex"]
    if t["kind"] != "joint" or cx.get("atoms") is None:
        r = _dispatch(t)
        print(r["outcome"], r.get("cex"))
        bad = r["outcome"] == "violation"
    else:
        rp = replay_joint(t, cx["atoms"], cx["fluents"])
        print(json.dumps(callsym._jsonable(rp), indent=1))
        bad = rp["disagree"]
    if bad:
        print(f"VIOLATION property=C16 replay={path}")
        return 1
    print("does not reproduce")
    return 0
