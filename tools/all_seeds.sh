#!/bin/bash
# tools/all_seeds.sh : run every stored seeded change against its property's quick check; one line per seed.
cd /verif
for d in seeded/*/; do
  id=$(basename "$d"); prop=$(python3 -c "import json;print(json.load(open('$d/meta.json'))['property'])")
  out=$(tools/try_seed.sh "$d/patch.diff" "$prop" 2>&1)
  if echo "$out" | grep -q "^VIOLATION property=$prop"; then r="CAUGHT"; else r="MISSED ($(echo "$out" | grep "^$prop \[" | cut -c1-80))"; fi
  echo "$id $r"
done
git -C /repo status --short | grep -v '^??' | head -2
