#!/bin/bash
# tools/all_seeds.sh [seed-dir ...]: run every stored seeded change against its property's quick check, in ONE scratch
# worktree of /repo (the working tree of /repo itself is never touched); one line per seed.
cd /verif
W=/tmp/wt_seedreg_$$
git -C /repo worktree add -q --detach "$W" HEAD || exit 2
trap 'cd /; git -C /repo worktree remove --force "$W"' EXIT
dirs=("$@"); [ ${#dirs[@]} -eq 0 ] && dirs=(seeded/*/)
for d in "${dirs[@]}"; do
  id=$(basename "$d"); prop=$(python3 -c "import json;print(json.load(open('$d/meta.json'))['property'])")
  if ! git -C "$W" apply "$PWD/$d/patch.diff" 2>/dev/null; then echo "$id PATCH-DOES-NOT-APPLY"; continue; fi
  out=$(tools/try_seed_wt.sh "$W" "$prop" 2>&1)
  git -C "$W" checkout -q -- . ; git -C "$W" clean -fdq
  if echo "$out" | grep -q "^VIOLATION property=$prop"; then r="CAUGHT"; else r="MISSED ($(echo "$out" | grep -E "^$prop \[|exit=" | tr '\n' ' ' | cut -c1-100))"; fi
  echo "$id $r"
done
