#!/bin/bash
# tools/try_seed.sh <patch-file> <check id> [<check id> ...]
# Applies a seeded change to /repo, runs the pinned suite and the named quick checks, and undoes the change.
set -u
PATCH="$1"; shift
cd /repo || exit 2
if ! git diff --quiet; then echo "/repo has uncommitted changes"; exit 2; fi
git apply "$PATCH" || { echo "patch does not apply"; exit 2; }
trap 'git -C /repo checkout -- . >/dev/null 2>&1' EXIT
echo "== pinned suite with the change:"
/venv/bin/python -m pytest -q -p no:cacheprovider -o log_cli=false --timeout=900 2>&1 | tail -1
for id in "$@"; do
  echo "== check $id (quick):"
  ( cd /verif && timeout 1200 ./vcheck "$id" --tier quick 2>&1 | grep -E "^(VIOLATION|KNOWN-FINDING|C[0-9]+ \[)|^  " | cut -c1-260 | head -6 )
done
