#!/bin/bash
# tools/try_seed_wt.sh <worktree with the change applied> <check id> [<check id> ...]
# Runs the named quick checks against a scratch worktree of /repo (VERIF_REPO), leaving /repo and the
# committed evidence untouched.  Evidence and replays of these runs go to a scratch directory that is removed.
set -u
W="$1"; shift
S=$(mktemp -d /tmp/seedrun_XXXX)
trap 'rm -rf "$S"' EXIT
for id in "$@"; do
  echo "== check $id (quick) against $W:"
  ( cd /verif && VERIF_REPO="$W" PYTHONPATH="$W" VERIF_EVIDENCE_DIR="$S" VERIF_REPLAY_DIR="$S" timeout 1500 ./vcheck "$id" --tier quick 2>&1 \
      | grep -E "^(VIOLATION|KNOWN-FINDING|C[0-9]+ \[)|^  |exit|Traceback|Error" | cut -c1-260 | head -8; echo "exit=${PIPESTATUS[0]}" )
done
