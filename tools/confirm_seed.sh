#!/bin/bash
# tools/confirm_seed.sh <dir with mutation.diff + demo.py>: confirm in a fresh scratch worktree that the demonstration
# passes without the change and fails with it, and that the pinned suite still passes with it.
D="$1"
W=/tmp/wt_verify_$$
git -C /repo worktree add -q --detach "$W" HEAD || exit 2
cp "$D/demo.py" "$W/demo.py"
cd "$W"
/venv/bin/python demo.py >/dev/null 2>&1; A=$?
git apply "$D/mutation.diff" 2>/dev/null || git apply "$D/patch.diff" || { echo "patch does not apply"; cd /; git -C /repo worktree remove --force "$W"; exit 2; }
/venv/bin/python demo.py >/dev/null 2>&1; B=$?
T=$(/venv/bin/python -m pytest -q -p no:cacheprovider -o log_cli=false --timeout=900 2>&1 | tail -1)
cd /; git -C /repo worktree remove --force "$W"
echo "demo without change: exit $A   with change: exit $B   pinned suite with change: $T"
