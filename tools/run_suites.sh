#!/bin/bash
# pinned suite (63 tests, from /repo) and the wider suite (per directory, 273 tests)
cd /repo && /venv/bin/python -m pytest -q -p no:cacheprovider -o log_cli=false --timeout=900 2>&1 | tail -1
for d in exporters_tests lisp_parsers_tests models_tests multi_agent_tests; do (cd /repo/tests/$d && /venv/bin/python -m pytest -q -p no:cacheprovider -o log_cli=false . 2>&1 | tail -1); done
cd /repo && git status --short | grep -v '^??' | head
