#!/bin/bash
# Build the runtime for the checks, offline, from files on disk only.
# /verif/.venv = venv on /venv's interpreter + overlay of /venv's site-packages and /repo + solver wheels.
set -e
cd "$(dirname "$0")"
V=/verif/.venv
if [ -x "$V/bin/python" ] && "$V/bin/python" -c 'import z3, cvc5, pddl_plus_parser' 2>/dev/null; then
  exit 0
fi
rm -rf "$V"
/venv/bin/python -m venv "$V"
SP=$("$V/bin/python" -c 'import sysconfig; print(sysconfig.get_paths()["purelib"])')
printf '/venv/lib/python3.12/site-packages\n/repo\n' > "$SP/overlay.pth"
PIP_NO_INDEX=1 "$V/bin/pip" install -q --no-index --find-links /opt/veriftools/wheels z3-solver cvc5 crosshair-tool jsonschema >/dev/null 2>&1 || \
PIP_NO_INDEX=1 "$V/bin/pip" install -q --no-index --find-links /opt/veriftools/wheels z3-solver cvc5
"$V/bin/python" -c 'import z3, pddl_plus_parser; print("venv ok", z3.get_version_string())'
