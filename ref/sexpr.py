"""ref.sexpr -- independent character-level S-expression reader (the oracle for C11 and the
front end of the semantic oracle).  Shares no code with the library.

Lexical rules (PDDL): ';' starts a comment that runs to the end of the line; letters are
case-insensitive (folded to lower case); tokens are '(' , ')' and maximal runs of characters
that are neither whitespace nor parentheses; whitespace is what str.split() treats as
whitespace on ASCII text: \\t \\n \\v \\f \\r \\x1c-\\x1f and space.
"""
from typing import List, Union

WS = frozenset("\t\n\x0b\x0c\r\x1c\x1d\x1e\x1f ")
# str.splitlines()/file iteration: which characters end a *line* (and therefore a comment)
FILE_EOL = frozenset("\n")  # text mode with universal newlines turns \r, \r\n into \n first
STR_EOL = frozenset("\n")  # the string constructor splits on "\n" only

Tree = Union[str, List["Tree"]]


class ReadError(Exception):
    pass


def tokens(text: str, eol=STR_EOL) -> List[str]:
    out: List[str] = []
    cur: List[str] = []
    i, n = 0, len(text)
    while i < n:
        c = text[i]
        if c == ";":
            while i < n and text[i] not in eol:
                i += 1
            # the end-of-line character itself is whitespace
            if cur:
                out.append("".join(cur))
                cur = []
            continue
        if c in WS or c in "()":
            if cur:
                out.append("".join(cur))
                cur = []
            if c in "()":
                out.append(c)
        else:
            cur.append(c.lower() if "A" <= c <= "Z" else c)
        i += 1
    if cur:
        out.append("".join(cur))
    return out


def universal_newlines(text: str) -> str:
    """What open(..., 'rt') does to line ends."""
    return text.replace("\r\n", "\n").replace("\r", "\n")


def read_tokens(toks: List[str]) -> Tree:
    """The whole token list must be exactly one form."""
    pos = 0

    def form():
        nonlocal pos
        if pos >= len(toks):
            raise ReadError("unexpected end of input")
        t = toks[pos]
        pos += 1
        if t == "(":
            out = []
            while True:
                if pos >= len(toks):
                    raise ReadError("unbalanced: missing )")
                if toks[pos] == ")":
                    pos += 1
                    return out
                out.append(form())
        if t == ")":
            raise ReadError("unexpected )")
        return t

    tree = form()
    if pos != len(toks):
        raise ReadError("text continues after the top-level form")
    return tree


def read(text: str, eol=STR_EOL) -> Tree:
    return read_tokens(tokens(text, eol))


def flatten(tree: Tree) -> List[str]:
    if isinstance(tree, str):
        return [tree]
    out = ["("]
    for t in tree:
        out.extend(flatten(t))
    out.append(")")
    return out


def render(tree: Tree) -> str:
    if isinstance(tree, str):
        return tree
    return "(" + " ".join(render(t) for t in tree) + ")"
