"""ref.pddl -- independent reading of a PDDL 2.1 (level 2) domain into plain tuples.

Written from the language definition; shares no code with the library.  Everything the
oracle cannot give a meaning to raises RefUnsupported (the harness then records the program as
outside the oracle, never as passed).
"""
from typing import Dict, List, Optional, Tuple

from . import sexpr


class RefUnsupported(Exception):
    pass


class RefError(Exception):
    """The text is not well-formed PDDL for this reader."""


def typed_list(items: list, default="object") -> List[Tuple[str, str]]:
    """'a b - t c' -> [(a,t),(b,t),(c,object)]"""
    out: List[Tuple[str, str]] = []
    group: List[str] = []
    i = 0
    while i < len(items):
        it = items[i]
        if it == "-":
            if i + 1 >= len(items):
                raise RefError("dangling '-'")
            t = items[i + 1]
            if isinstance(t, list):
                raise RefUnsupported("either types")
            out.extend((g, t) for g in group)
            group = []
            i += 2
            continue
        if isinstance(it, list):
            raise RefError(f"list in typed list: {it}")
        group.append(it)
        i += 1
    out.extend((g, default) for g in group)
    return out


class RAction:
    def __init__(self, name):
        self.name = name
        self.params: List[Tuple[str, str]] = []
        self.pre = None  # tree or None
        self.eff = None


class RDomain:
    def __init__(self):
        self.name = None
        self.requirements: List[str] = []
        self.types: Dict[str, Optional[str]] = {"object": None}  # name -> parent
        self.constants: List[Tuple[str, str]] = []
        self.predicates: Dict[str, List[Tuple[str, str]]] = {}
        self.functions: Dict[str, List[Tuple[str, str]]] = {}
        self.actions: Dict[str, RAction] = {}

    # -- type closure --------------------------------------------------------------------
    def is_subtype(self, t: str, of: str) -> bool:
        seen = set()
        while t is not None and t not in seen:
            if t == of:
                return True
            seen.add(t)
            t = self.types.get(t)
        return False


def read_domain(text: str) -> RDomain:
    tree = sexpr.read(text)
    return domain_from_tree(tree)


def domain_from_tree(tree) -> RDomain:
    if not isinstance(tree, list) or not tree or tree[0] != "define":
        raise RefError("no define")
    d = RDomain()
    for sec in tree[1:]:
        if not isinstance(sec, list) or not sec:
            raise RefError(f"bad section {sec}")
        head = sec[0]
        if head == "domain":
            d.name = sec[1]
        elif head == ":requirements":
            d.requirements = list(sec[1:])
        elif head == ":types":
            pairs = typed_list(sec[1:])
            for child, parent in pairs:
                if child == "object":
                    continue
                d.types[child] = parent
            for _, parent in pairs:
                if parent not in d.types:
                    d.types[parent] = "object"
        elif head == ":constants":
            d.constants = typed_list(sec[1:])
        elif head == ":predicates":
            for p in sec[1:]:
                if p and p[0] == ":private":
                    for q in p[1:]:
                        if isinstance(q, list):
                            d.predicates[q[0]] = typed_list(q[1:])
                    continue
                d.predicates[p[0]] = typed_list(p[1:])
        elif head == ":functions":
            # (:functions (f ?x - t) (g) - number ...): optional "- number" after groups
            items = [f for f in sec[1:]]
            i = 0
            while i < len(items):
                f = items[i]
                if f == "-":
                    i += 2
                    continue
                d.functions[f[0]] = typed_list(f[1:])
                i += 1
        elif head == ":action":
            a = RAction(sec[1])
            rest = sec[2:]
            i = 0
            while i < len(rest):
                key = rest[i]
                val = rest[i + 1] if i + 1 < len(rest) else None
                if key == ":parameters":
                    a.params = typed_list(val)
                elif key == ":precondition":
                    a.pre = val
                elif key == ":effect":
                    a.eff = val
                else:
                    raise RefUnsupported(f"action section {key}")
                i += 2
            d.actions[a.name] = a
        elif head in (":process", ":event", ":durative-action", ":derived"):
            raise RefUnsupported(head)
        else:
            raise RefUnsupported(f"section {head}")
    return d
