"""ref.sem -- PDDL 2.1 level-2 semantics of one action call as z3 terms.

State variables: one z3 Bool per ground atom, one z3 Real per ground fluent (names are the
printed ground form, e.g. "(q o1 o2)").  From an action of an RDomain, an argument tuple and
an object table this module produces

  pre            Bool term: the precondition instantiated with the arguments
  next_atom[a]   Bool term over the *pre-state*: (a and not del(a)) or add(a)
  next_fluent[f] Real term over the pre-state
  consistent     Bool term: no fluent written by two simultaneously firing updates and no atom
                 added by one effect group and deleted by another (the property's side condition)
  defined        Bool term: no division by zero in anything evaluated

Comparisons follow the property text literally: '=', '<=', '>=' hold iff |l-r| <= EPS or the
strict order holds; '<' and '>' are strict.  EPS is passed in as an exact rational.

`variant` switches on *defect models* used only to attribute a disagreement to a committed
known finding (see known_findings.jsonl); the default (empty) is the standard semantics.
"""
from fractions import Fraction
from typing import Dict, List, Optional, Tuple

import z3

from .pddl import RDomain, RAction, RefUnsupported, RefError, typed_list

CMP = ("=", "<=", ">=", "<", ">")
ARITH = ("+", "-", "*", "/")
ASSIGN = ("assign", "increase", "decrease", "scale-up", "scale-down")


def atom_name(pred: str, args) -> str:
    return "(" + " ".join([pred] + list(args)) + ")"


def is_number(tok: str) -> bool:
    try:
        float(tok)
        return not tok.lower().strip("+-").startswith(("inf", "nan"))
    except ValueError:
        return False


def exact_real(x: float) -> z3.ArithRef:
    f = Fraction(x)
    return z3.RealVal(f.numerator) if f.denominator == 1 else z3.Q(f.numerator, f.denominator)


def num_value(tok: str) -> z3.ArithRef:
    # the decimal numeral's exact value of the *double* it denotes (the library stores doubles)
    f = Fraction(float(tok))
    return z3.RealVal(f.numerator) if f.denominator == 1 else z3.Q(f.numerator, f.denominator)


class Vars:
    """Registry of state variables (shared between oracle and harness)."""

    def __init__(self):
        self.atoms: Dict[str, z3.BoolRef] = {}
        self.fluents: Dict[str, z3.ArithRef] = {}

    def atom(self, name: str) -> z3.BoolRef:
        if name not in self.atoms:
            self.atoms[name] = z3.Bool(name)
        return self.atoms[name]

    def fluent(self, name: str) -> z3.ArithRef:
        if name not in self.fluents:
            self.fluents[name] = z3.Real("v" + name)
        return self.fluents[name]


class CallSem:
    def __init__(self):
        self.pre = None
        self.next_atom: Dict[str, z3.BoolRef] = {}
        self.next_fluent: Dict[str, z3.ArithRef] = {}
        self.consistent = None
        self.defined = None
        self.read_atoms = set()
        self.read_fluents = set()
        self.written_atoms = set()
        self.written_fluents = set()
        self.groups = 0


class Sem:
    def __init__(self, dom: RDomain, objects: Dict[str, str], eps: Fraction, vars: Optional[Vars] = None,
                 variant=frozenset()):
        self.dom = dom
        self.objects = dict(objects)  # name -> type (problem objects)
        self.consts = dict(dom.constants)
        self.eps = z3.Q(eps.numerator, eps.denominator)
        self.vars = vars or Vars()
        self.variant = frozenset(variant)
        self._defined: List[z3.BoolRef] = []
        self._ra = set()
        self._rf = set()

    # -- terms -----------------------------------------------------------------------------
    def all_objects(self) -> Dict[str, str]:
        o = dict(self.consts)
        o.update(self.objects)
        return o

    def objects_of(self, t: str) -> List[str]:
        if "forall_exact_type" in self.variant:
            return [n for n, ot in self.all_objects_problem_first().items() if ot == t]
        return [n for n, ot in self.all_objects_problem_first().items() if self.dom.is_subtype(ot, t)]

    def all_objects_problem_first(self):
        # quantifiers range over the problem's objects and the domain's constants
        o = dict(self.objects)
        if "forall_no_constants" not in self.variant:
            for k, v in self.consts.items():
                o.setdefault(k, v)
        return o

    def term(self, tok: str, env: Dict[str, str]) -> str:
        if tok.startswith("?"):
            if tok not in env:
                raise RefError(f"unbound variable {tok}")
            return env[tok]
        if tok in self.consts or tok in self.objects:
            return tok
        raise RefError(f"unknown name {tok}")

    def abs_(self, x):
        return z3.If(x >= 0, x, -x)

    def num(self, e, env) -> z3.ArithRef:
        v = self._num(e, env)
        return exact_real(v) if isinstance(v, float) else v

    def _num(self, e, env):
        """z3 term, or a Python float for a closed constant sub-expression.  Arithmetic between
        two *constants* is done in IEEE doubles, as any implementation storing doubles does;
        rounding is outside every claim and must not show up as a disagreement."""
        if isinstance(e, str):
            if is_number(e):
                return float(e)
            raise RefError(f"bad numeric leaf {e}")
        if not e:
            raise RefError("empty numeric expression")
        h = e[0]
        if h in ARITH:
            args = [self._num(a, env) for a in e[1:]]
            if h == "-" and len(args) == 1:
                return -args[0]
            if len(args) < 2:
                raise RefError(f"arity of {h}")
            if h in ("-", "/") and len(args) != 2:
                raise RefError(f"arity of {h}")
            acc = args[0]
            for a in args[1:]:
                if isinstance(acc, float) and isinstance(a, float):
                    if h == "/" and a == 0.0:
                        self._defined.append(z3.BoolVal(False))
                        a = 1.0
                    acc = {"+": acc + a, "*": acc * a, "-": acc - a, "/": acc / a if h == "/" else 0.0}[h]
                    continue
                x = exact_real(acc) if isinstance(acc, float) else acc
                y = exact_real(a) if isinstance(a, float) else a
                if h == "+":
                    acc = x + y
                elif h == "*":
                    acc = x * y
                elif h == "-":
                    acc = x - y
                else:
                    self._defined.append(y != 0)
                    acc = x / y
            return acc
        if h in self.dom.functions:
            sig = self.dom.functions[h]
            if len(sig) != len(e) - 1:
                raise RefError(f"arity of function {h}")
            name = atom_name(h, [self.term(a, env) for a in e[1:]])
            self._rf.add(name)
            return self.vars.fluent(name)
        raise RefError(f"unknown function {h}")

    def compare(self, op, l, r):
        close = self.abs_(l - r) <= self.eps
        if "reltol" in self.variant:
            # defect model: math.isclose default rel_tol=1e-9 on top of abs_tol
            mx = z3.If(self.abs_(l) >= self.abs_(r), self.abs_(l), self.abs_(r))
            close = z3.Or(close, self.abs_(l - r) <= z3.Q(1, 10 ** 9) * mx)
            # (1e-9 as a double is not exactly 10^-9; the variant is only used for attribution)
        if op == "=":
            return close
        if op == "<=":
            return z3.Or(close, l < r)
        if op == ">=":
            return z3.Or(close, l > r)
        if op == "<":
            return l < r
        if op == ">":
            return l > r
        raise RefError(op)

    def formula(self, f, env) -> z3.BoolRef:
        if isinstance(f, str):
            raise RefError(f"bare token as formula: {f}")
        if len(f) == 0:
            return z3.BoolVal(True)
        h = f[0]
        if h == "and":
            return z3.And([z3.BoolVal(True)] + [self.formula(g, env) for g in f[1:]])
        if h == "or":
            return z3.Or([z3.BoolVal(False)] + [self.formula(g, env) for g in f[1:]])
        if h == "not":
            if len(f) != 2:
                raise RefError("arity of not")
            return z3.Not(self.formula(f[1], env))
        if h == "imply":
            if len(f) != 3:
                raise RefError("arity of imply")
            return z3.Implies(self.formula(f[1], env), self.formula(f[2], env))
        if h in ("forall", "exists"):
            if len(f) != 3:
                raise RefError(f"arity of {h}")
            vs = typed_list(f[1])
            parts = [self.formula(f[2], e2) for e2 in self.expand(vs, env)]
            return z3.And([z3.BoolVal(True)] + parts) if h == "forall" else z3.Or([z3.BoolVal(False)] + parts)
        if h == "=" and len(f) == 3 and isinstance(f[1], str) and isinstance(f[2], str) \
                and not is_number(f[1]) and not is_number(f[2]):
            return z3.BoolVal(self.term(f[1], env) == self.term(f[2], env))
        if h in CMP:
            if len(f) != 3:
                raise RefError(f"arity of {h}")
            return self.compare(h, self.num(f[1], env), self.num(f[2], env))
        if h in self.dom.predicates:
            sig = self.dom.predicates[h]
            if len(sig) != len(f) - 1:
                raise RefError(f"arity of predicate {h}")
            name = atom_name(h, [self.term(a, env) for a in f[1:]])
            self._ra.add(name)
            return self.vars.atom(name)
        raise RefError(f"unknown formula head {h}")

    def expand(self, vs: List[Tuple[str, str]], env):
        envs = [dict(env)]
        for v, t in vs:
            if t not in self.dom.types:
                raise RefError(f"unknown type {t}")
            envs = [dict(e, **{v: o}) for e in envs for o in self.objects_of(t)]
        return envs

    # -- effects ---------------------------------------------------------------------------
    def effect(self, e, env, guard, group, items, groups):
        """items: list of (guard, group, kind, target, payload)"""
        if isinstance(e, str):
            raise RefError(f"bare token as effect: {e}")
        if len(e) == 0:
            return
        h = e[0]
        if h == "and":
            for g in e[1:]:
                self.effect(g, env, guard, group, items, groups)
            return
        if h == "not":
            if len(e) != 2 or not isinstance(e[1], list) or e[1][0] not in self.dom.predicates:
                raise RefError("bad delete effect")
            a = e[1]
            if len(self.dom.predicates[a[0]]) != len(a) - 1:
                raise RefError("arity")
            items.append((guard, group, "del", atom_name(a[0], [self.term(x, env) for x in a[1:]]), None))
            return
        if h == "when":
            if len(e) != 3:
                raise RefError("arity of when")
            groups[0] += 1
            g2 = z3.And(guard, self.formula(e[1], env))
            self.effect(e[2], env, g2, groups[0], items, groups)
            return
        if h == "forall":
            if len(e) != 3:
                raise RefError("arity of forall")
            for e2 in self.expand(typed_list(e[1]), env):
                groups[0] += 1
                self.effect(e[2], e2, guard, groups[0], items, groups)
            return
        if h in ASSIGN:
            if len(e) != 3:
                raise RefError(f"arity of {h}")
            tgt = e[1]
            if not isinstance(tgt, list) or tgt[0] not in self.dom.functions:
                raise RefError("bad assignment target")
            if len(self.dom.functions[tgt[0]]) != len(tgt) - 1:
                raise RefError("arity")
            name = atom_name(tgt[0], [self.term(x, env) for x in tgt[1:]])
            rhs = self.num(e[2], env)
            items.append((guard, group, "num", name, (h, rhs)))
            return
        if h in self.dom.predicates:
            if len(self.dom.predicates[h]) != len(e) - 1:
                raise RefError("arity")
            items.append((guard, group, "add", atom_name(h, [self.term(x, env) for x in e[1:]]), None))
            return
        raise RefError(f"unknown effect head {h}")

    # -- one call ---------------------------------------------------------------------------
    def call(self, action: RAction, args: List[str]) -> CallSem:
        if len(args) != len(action.params):
            raise RefError("arity of call")
        env = {p: a for (p, _), a in zip(action.params, args)}
        cs = CallSem()
        self._defined = []
        self._ra, self._rf = set(), set()
        cs.pre = self.formula(action.pre, env) if action.pre is not None else z3.BoolVal(True)
        pre_defined = list(self._defined)
        items: list = []
        groups = [0]
        if action.eff is not None:
            self.effect(action.eff, env, z3.BoolVal(True), 0, items, groups)
        cs.groups = groups[0] + 1
        cs.defined = z3.And([z3.BoolVal(True)] + pre_defined + self._defined[len(pre_defined):])
        cs.read_atoms, cs.read_fluents = set(self._ra), set(self._rf)
        cons = []
        by_atom: Dict[str, list] = {}
        by_fl: Dict[str, list] = {}
        for g, grp, kind, tgt, payload in items:
            if kind in ("add", "del"):
                by_atom.setdefault(tgt, []).append((g, grp, kind))
            else:
                by_fl.setdefault(tgt, []).append((g, grp, payload))
        for a, lst in by_atom.items():
            cs.written_atoms.add(a)
            cur = self.vars.atom(a)
            add = z3.Or([z3.BoolVal(False)] + [g for g, _, k in lst if k == "add"])
            dele = z3.Or([z3.BoolVal(False)] + [g for g, _, k in lst if k == "del"])
            cs.next_atom[a] = z3.Or(add, z3.And(cur, z3.Not(dele)))
            for g1, grp1, k1 in lst:
                for g2, grp2, k2 in lst:
                    if k1 == "add" and k2 == "del" and grp1 != grp2:
                        cons.append(z3.Not(z3.And(g1, g2)))
        for f, lst in by_fl.items():
            cs.written_fluents.add(f)
            cur = self.vars.fluent(f)
            nxt = cur
            for g, grp, (op, rhs) in reversed(lst):
                if op == "assign":
                    v = rhs
                elif op == "increase":
                    v = cur + rhs
                elif op == "decrease":
                    v = cur - rhs
                elif op == "scale-up":
                    v = cur * rhs
                else:
                    self._defined.append(rhs != 0)
                    v = cur / rhs
                nxt = z3.If(g, v, nxt)
            cs.next_fluent[f] = nxt
            for i in range(len(lst)):
                for j in range(i + 1, len(lst)):
                    cons.append(z3.Not(z3.And(lst[i][0], lst[j][0])))
        cs.consistent = z3.And([z3.BoolVal(True)] + cons)
        return cs
