"""gen.programs -- the enumerated dimensions: a small universe and bounded families of
action schemas (as S-expression trees), rendered to PDDL text.

Universe U (DESIGN section 2.4):
  types      t1 t2 - object   t3 - t1            constants  k - t1   (present / absent)
  predicates (p ?x - t1) (q ?x - t1 ?y - t1) (r) (s ?x - t2) (m ?a - t3 ?a2 - t1)
  functions  (f ?x - t1) (g) (h ?x - t1 ?y - t1)
  objects    o1 o2 - t1   o3 - t3   u1 - t2
"""
import itertools
import random
from typing import List

from ref.sexpr import render

TYPES = ["t1", "t2", "-", "object", "t3", "-", "t1"]
# The declared parameter names of p, q, f, h coincide with the action parameter names ?x ?y on purpose (a literal such as
# (q ?y ?x) then permutes the declaration's own names); m has two differently typed parameters whose names are a prefix of
# one another (?a, ?a2) and is used by the state / problem / trajectory checks only.
PREDICATES = [["p", "?x", "-", "t1"], ["q", "?x", "-", "t1", "?y", "-", "t1"], ["r"], ["s", "?x", "-", "t2"],
              ["m", "?a", "-", "t3", "?a2", "-", "t1"]]
FUNCTIONS = [["f", "?x", "-", "t1"], ["g"], ["h", "?x", "-", "t1", "?y", "-", "t1"],
             # three parameters: only as a frame fluent of the state / problem / trajectory checks (an argument three times)
             ["w3", "?a", "-", "t1", "?b", "-", "t1", "?c", "-", "t1"]]
OBJECTS = {"o1": "t1", "o2": "t1", "o3": "t3", "u1": "t2"}
CONSTANTS = {"k": "t1"}

PARAM_LISTS = {
    "P0": [],
    "P1": [("?x", "t1")],
    "P2": [("?x", "t1"), ("?y", "t1")],
    "P3": [("?x", "t3"), ("?y", "t1")],
    "P4": [("?x", "t1"), ("?u", "t2"), ("?y", "t1")],  # equal types not adjacent
    "P5": [("?x", "t1"), ("?y", "t1"), ("?w", "t1")],  # three parameters of one type (cyclic renamings)
}


def params_tree(params):
    out = []
    for n, t in params:
        out += [n, "-", t]
    return out


def domain_tree(actions, const=True, name="u", types=None, extra_predicates=(), requirements=None):
    """actions: list of (name, params, pre_tree_or_None, eff_tree_or_None)"""
    d = ["define", ["domain", name],
         [":requirements"] + (requirements or [":typing", ":negative-preconditions", ":equality",
                                               ":disjunctive-preconditions", ":universal-preconditions",
                                               ":conditional-effects", ":fluents"]),
         [":types"] + (types if types is not None else TYPES)]
    if const:
        d.append([":constants", "k", "-", "t1"])
    d.append([":predicates"] + PREDICATES + list(extra_predicates))
    d.append([":functions"] + FUNCTIONS)
    for (an, params, pre, eff) in actions:
        a = [":action", an, ":parameters", params_tree(params)]
        a += [":precondition", pre if pre is not None else ["and"]]
        a += [":effect", eff if eff is not None else ["and"]]
        d.append(a)
    return d


def domain_text(actions, const=True, **kw):
    return pretty(domain_tree(actions, const, **kw))


def pretty(tree, indent=0):
    """canonical layout: one section per line"""
    if isinstance(tree, str):
        return tree
    if indent == 0:
        return "(" + "\n ".join(pretty(t, 1) for t in tree) + ")\n"
    return render(tree)


def problem_text(objects=OBJECTS, name="pu", domain="u", init=(), goal=()):
    objs = []
    for o, t in objects.items():
        objs += [o, "-", t]
    tree = ["define", ["problem", name], [":domain", domain], [":objects"] + objs, [":init"] + list(init),
            [":goal", ["and"] + list(goal)]]
    return pretty(tree)


# --------------------------------------------------------------------------------------------
# literals available for a parameter list
# --------------------------------------------------------------------------------------------
def t1_terms(params, const):
    ts = [n for n, t in params if t in ("t1", "t3")]  # t3 <= t1
    if const:
        ts.append("k")
    return ts


def bool_literals(params, const, extra_terms=()):
    ts = t1_terms(params, const) + list(extra_terms)
    lits = [["r"], ["not", ["r"]]]
    for a in ts:
        lits.append(["p", a])
        lits.append(["not", ["p", a]])
    for a in ts:
        for b in ts:
            if a == b:
                continue  # repeated-argument atoms are a separate (out-of-fragment) family
            lits.append(["q", a, b])
            lits.append(["not", ["q", a, b]])
    return lits


def eq_literals(params):
    names = [n for n, t in params if t in ("t1", "t3")]
    out = []
    for a, b in itertools.permutations(names, 2):
        out.append(["=", a, b])
        out.append(["not", ["=", a, b]])
    return out


def num_terms(params, const, extra_terms=()):
    ts = t1_terms(params, const) + list(extra_terms)
    leaves = [["g"]]
    for a in ts:
        leaves.append(["f", a])
    for a in ts:
        for b in ts:
            if a != b:
                leaves.append(["h", a, b])
    return leaves


CONSTS = ["0", "1", "2", "-1", "0.5", "3.25", "10", "100000", "-100000.5", "0.0001", "1e-3"]


def const_value(e):
    """value of an expression without fluents (None if it mentions a fluent or divides by zero)"""
    if isinstance(e, str):
        return float(e)
    if e[0] not in ("+", "-", "*", "/"):
        return None
    l, r = const_value(e[1]), const_value(e[2])
    if l is None or r is None:
        return None
    if e[0] == "/":
        return None if r == 0 else l / r
    return {"+": l + r, "-": l - r, "*": l * r}[e[0]]


def always_zero(e):
    """expressions that are zero whatever the fluents are: constant zero, a product with such a factor, a quotient with
    such a numerator"""
    v = const_value(e)
    if v is not None:
        return v == 0
    if isinstance(e, list) and e[0] == "*":
        return always_zero(e[1]) or always_zero(e[2])
    if isinstance(e, list) and e[0] == "/":
        return always_zero(e[1])
    return False


def num_exprs(rng, params, const, depth=1, extra_terms=()):
    leaves = num_terms(params, const, extra_terms)

    def gen(d):
        if d == 0 or rng.random() < 0.35:
            if rng.random() < 0.3:
                return rng.choice(CONSTS)
            return rng.choice(leaves)
        op = rng.choice(["+", "-", "*", "/"])
        l, r = gen(d - 1), gen(d - 1)
        if op == "/" and always_zero(r):
            r = "2"  # a division by zero (the literal 0, (+ 0 0), (/ 0 x), (* 0 x) ...) has no meaning
        return [op, l, r]

    return gen(depth)


def num_literal(rng, params, const, depth=1, extra_terms=()):
    op = rng.choice(["=", "<=", ">=", "<", ">"])
    l = num_exprs(rng, params, const, depth, extra_terms)
    if isinstance(l, str):
        l = rng.choice(num_terms(params, const, extra_terms))
    r = num_exprs(rng, params, const, max(depth - 1, 0), extra_terms)
    if rng.random() < 0.2:
        l, r = r, l  # the constant / the smaller expression on the left
    return [op, l, r]


def literal(rng, params, const, numeric=True, equality=True, extra_terms=()):
    x = rng.random()
    if numeric and x < 0.35:
        return num_literal(rng, params, const, rng.choice([0, 1, 1, 2]), extra_terms)
    if equality and x < 0.45 and len(params) >= 2:
        return rng.choice(eq_literals(params))
    return rng.choice(bool_literals(params, const, extra_terms))


# --------------------------------------------------------------------------------------------
# preconditions
# --------------------------------------------------------------------------------------------
def forall_node(rng, params, const, numeric, nested_body=False):
    T = rng.choice(["t1", "t1", "t3"])
    op = rng.choice(["and", "and", "or"])
    m = rng.choice([1, 2])
    body = [literal(rng, params, const, numeric, False, extra_terms=("?z",)) for _ in range(m)]
    if not any("?z" in render(b) for b in body):
        body[0] = rng.choice([["p", "?z"], ["not", ["p", "?z"]], [">=", ["f", "?z"], "0"]])
    if nested_body:
        op2 = "or" if op == "and" else "and"
        body.append([op2] + [literal(rng, params, const, numeric, False, extra_terms=("?z",)) for _ in range(rng.choice([1, 2]))])
    return ["forall", ["?z", "-", T], [op] + body]


def deep_precondition(rng, params, const, numeric=True):
    """nesting beyond the basic family: a forall inside an or/and node, an or/and inside a forall body, two levels of
    and/or nesting"""
    kind = rng.choice(["forall_in_node", "node_in_forall", "two_levels", "forall_in_node"])
    parts = [literal(rng, params, const, numeric, True) for _ in range(rng.choice([0, 1, 2]))]
    if kind == "forall_in_node":
        op = rng.choice(["or", "or", "and"])
        parts.append([op, literal(rng, params, const, numeric, True), forall_node(rng, params, const, numeric)])
    elif kind == "node_in_forall":
        parts.append(forall_node(rng, params, const, numeric, nested_body=True))
    else:
        inner = [rng.choice(["and", "or"])] + [literal(rng, params, const, numeric, True) for _ in range(2)]
        parts.append([rng.choice(["or", "and"]), literal(rng, params, const, numeric, True), inner])
    rng.shuffle(parts)
    return ["and"] + parts


def precondition(rng, params, const, features):
    """features: subset of {'nested','forall','numeric','equality'}"""
    numeric = "numeric" in features
    equality = "equality" in features
    n = rng.choice([0, 1, 1, 2, 2, 3])
    parts = [literal(rng, params, const, numeric, equality) for _ in range(n)]
    if "nested" in features:
        op = rng.choice(["or", "or", "and"])
        m = rng.choice([1, 2, 2, 3])
        parts.append([op] + [literal(rng, params, const, numeric, equality) for _ in range(m)])
    if "forall" in features:
        T = rng.choice(["t1", "t1", "t3"])
        op = rng.choice(["and", "and", "or"])
        m = rng.choice([1, 2])
        body = [literal(rng, params, const, numeric, False, extra_terms=("?z",)) for _ in range(m)]
        # make sure the quantified variable occurs
        if not any("?z" in render(b) for b in body):
            body[0] = rng.choice([["p", "?z"], ["not", ["p", "?z"]], [">=", ["f", "?z"], "0"]])
        parts.append(["forall", ["?z", "-", T], [op] + body])
    rng.shuffle(parts)
    return ["and"] + parts


# --------------------------------------------------------------------------------------------
# effects
# --------------------------------------------------------------------------------------------
def atom_effect(rng, params, const, extra_terms=()):
    lits = bool_literals(params, const, extra_terms)
    return rng.choice(lits)


def num_effect(rng, params, const, extra_terms=()):
    op = rng.choice(["assign", "increase", "decrease"])
    tgt = rng.choice(num_terms(params, const, extra_terms))
    rhs = num_exprs(rng, params, const, rng.choice([0, 1, 1, 2]), extra_terms)
    return [op, tgt, rhs]


def results(rng, params, const, numeric, k, extra_terms=()):
    out = []
    for _ in range(k):
        if numeric and rng.random() < 0.4:
            out.append(num_effect(rng, params, const, extra_terms))
        else:
            out.append(atom_effect(rng, params, const, extra_terms))
    return out


def effect(rng, params, const, features):
    """features: subset of {'when','forall','numeric'}"""
    numeric = "numeric" in features
    parts = results(rng, params, const, numeric, rng.choice([0, 1, 2, 2, 3]))
    if "when" in features:
        for _ in range(rng.choice([1, 1, 2])):
            m = rng.choice([1, 1, 2])
            cond = [literal(rng, params, const, numeric, True) for _ in range(m)]
            cond_t = cond[0] if m == 1 and rng.random() < 0.5 else ["and"] + cond
            res = results(rng, params, const, numeric, rng.choice([1, 1, 2]))
            res_t = res[0] if len(res) == 1 and rng.random() < 0.5 else ["and"] + res
            parts.append(["when", cond_t, res_t])
    if "forall" in features:
        T = rng.choice(["t1", "t1", "t3"])
        m = rng.choice([1, 1, 2])
        cond = [literal(rng, params, const, numeric, False, extra_terms=("?z",)) for _ in range(m)]
        if not any("?z" in render(c) for c in cond) and rng.random() < 0.7:
            cond[0] = rng.choice([["p", "?z"], ["not", ["p", "?z"]]])
        cond_t = cond[0] if m == 1 and rng.random() < 0.5 else ["and"] + cond
        res = results(rng, params, const, numeric, rng.choice([1, 1, 2]), extra_terms=("?z",))
        if not any("?z" in render(c) for c in res):
            res[0] = rng.choice([["p", "?z"], ["not", ["p", "?z"]], ["increase", ["f", "?z"], "1"]])
        res_t = res[0] if len(res) == 1 and rng.random() < 0.5 else ["and"] + res
        parts.append(["forall", ["?z", "-", T], ["when", cond_t, res_t]])
    rng.shuffle(parts)
    return ["and"] + parts


# --------------------------------------------------------------------------------------------
# argument tuples
# --------------------------------------------------------------------------------------------
def arg_tuples(params, const, limit=6):
    doms = []
    for _, t in params:
        if t == "t1":
            d = ["o1", "o2", "o3"] + (["k"] if const else [])
        elif t == "t3":
            d = ["o3"]
        else:
            d = ["u1"]
        doms.append(d)
    allt = list(itertools.product(*doms))
    if len(allt) <= limit:
        return [list(t) for t in allt]
    # always include: distinct plain objects, a repeated object, a subtype object, the constant
    pick = []

    def add(t):
        if t in allt and t not in pick:
            pick.append(t)

    if len(params) == 2:
        add(("o1", "o2"))
        add(("o1", "o1"))
        add(("o3", "o1"))
        add(("o3", "o3"))
        add(("o2", "o3"))
        if const:
            add(("o1", "k"))
            add(("k", "o2"))
            add(("k", "k"))
    if len(params) == 3 and all(t == "t1" for _, t in params):
        # all distinct, each way of exactly one equal pair, all equal
        for t in (("o1", "o2", "o3"), ("o1", "o1", "o2"), ("o1", "o2", "o1"), ("o2", "o1", "o1"), ("o1", "o1", "o1")):
            add(t)
    for t in allt:
        if len(pick) >= limit:
            break
        add(t)
    return [list(t) for t in pick[:limit]]


# --------------------------------------------------------------------------------------------
# curated core: every construct alone and important pairs (deterministic)
# --------------------------------------------------------------------------------------------
def core_preconditions():
    P2 = PARAM_LISTS["P2"]
    out = []
    singles = [
        ["p", "?x"], ["not", ["p", "?x"]], ["p", "k"], ["q", "?x", "?y"], ["q", "?y", "?x"], ["q", "?x", "k"],
        ["not", ["q", "?x", "?y"]], ["r"], ["not", ["r"]], ["=", "?x", "?y"], ["not", ["=", "?x", "?y"]],
    ]
    for op in ["=", "<=", ">=", "<", ">"]:
        singles.append([op, ["f", "?x"], "1"])
        singles.append([op, ["f", "?x"], ["g"]])
    singles += [
        [">=", ["f", "?x"], ["+", ["g"], "1"]],
        ["<=", ["-", ["f", "?x"], ["g"]], ["f", "?y"]],
        [">", ["*", ["f", "?x"], ["g"]], "2"],
        ["<", ["/", ["g"], ["f", "?x"]], "3"],
        ["=", ["h", "?x", "?y"], ["h", "?y", "?x"]],
        [">=", ["-", ["g"], ["-", ["f", "?x"], ["f", "?y"]]], "0.5"],
        ["<=", ["/", ["/", ["g"], ["f", "?x"]], ["f", "?y"]], "100000"],
        ["=", ["f", "?x"], "100000"],
        [">=", ["f", "?x"], "-100000.5"],
        # the constant on the left
        ["<=", "1", ["f", "?x"]], [">=", "1", ["f", "?x"]], ["<", "0.5", ["f", "?x"]], [">", "2", ["g"]], ["=", "1", ["f", "?x"]],
        ["<=", "-1", ["-", ["f", "?x"], ["g"]]],
        # 0 and 1 as operands, on either side of each operator (neutral only on the right of - and /)
        [">=", ["-", "0", ["f", "?x"]], "-5"], ["<=", ["/", "1", ["g"]], ["f", "?x"]], [">=", ["-", ["f", "?x"], "0"], ["g"]],
        ["<", ["/", ["f", "?x"], "1"], ["g"]], [">", ["+", "0", ["f", "?x"]], ["*", "1", ["g"]]], ["<=", ["*", ["f", "?x"], "0"], ["g"]],
        [">=", ["-", ["-", "0", ["g"]], ["/", "1", ["f", "?y"]]], "0"],
    ]
    for s in singles:
        out.append(("P2", ["and", s]))
    for a, b in itertools.combinations(singles[:12] + singles[21:24], 2):
        out.append(("P2", ["and", a, b]))
    # nested
    nested = [
        ["or", ["p", "?x"], ["p", "?y"]],
        ["or", ["not", ["p", "?x"]], ["q", "?x", "?y"]],
        ["or", ["p", "?x"], [">", ["f", "?x"], "1"]],
        ["and", ["p", "?x"], ["p", "?y"]],
        ["or", ["p", "?x"]],
        ["or", ["=", "?x", "?y"], ["p", "?x"]],
        ["or", ["not", ["=", "?x", "?y"]], ["r"]],
        # junctions made of object (in)equalities only (the library keeps those outside the operand set)
        ["or", ["=", "?x", "?y"]],
        ["and", ["not", ["=", "?x", "?y"]]],
        ["or", ["=", "?x", "?y"], ["=", "?y", "?x"]],
        # numeric conditions inside a junction whose meaning a simplifier would change if it treated them like top-level
        # conjuncts: an equality is an assumption only under `and`; 1/3 has no finite decimal expansion
        ["or", ["=", ["+", ["f", "?x"], ["g"]], "0"], [">", ["g"], "5"]],
        ["or", ["p", "?x"], [">=", ["/", ["f", "?x"], "3"], "1"]],
        ["or", ["<=", ["*", ["f", "?x"], "0.25"], ["g"]], ["=", ["f", "?y"], ["*", "2", ["g"]]]],
    ]
    for nd in nested:
        out.append(("P2", ["and", nd]))
        out.append(("P2", ["and", ["r"], nd]))
        out.append(("P2", ["and", nd, ["not", ["q", "?x", "?y"]]]))
    out.append(("P2", ["and", nested[0], nested[1]]))
    # forall
    foralls = [
        ["forall", ["?z", "-", "t1"], ["and", ["p", "?z"]]],
        ["forall", ["?z", "-", "t3"], ["and", ["p", "?z"]]],
        ["forall", ["?z", "-", "t1"], ["or", ["p", "?z"], ["q", "?x", "?z"]]],
        ["forall", ["?z", "-", "t1"], ["and", ["not", ["q", "?z", "?x"]], [">=", ["f", "?z"], "0"]]],
        ["forall", ["?z", "-", "t1"], ["and", [">", ["h", "?x", "?z"], ["g"]]]],
        ["forall", ["?z", "-", "t2"], ["and", ["s", "?z"]]],
        # object (in)equalities between the quantified variable and a parameter ("all others"), alone and next to a nested junction
        ["forall", ["?z", "-", "t1"], ["or", ["=", "?z", "?x"], ["p", "?z"]]],
        ["forall", ["?z", "-", "t1"], ["or", ["=", "?z", "?x"], ["and", ["p", "?z"], ["not", ["q", "?z", "?y"]]]]],
        ["forall", ["?z", "-", "t1"], ["and", ["not", ["=", "?z", "?y"]], ["or", ["p", "?z"], ["q", "?z", "?x"]]]],
        ["forall", ["?z", "-", "t3"], ["and", ["not", ["=", "?z", "?x"]]]],
        ["forall", ["?z", "-", "t1"], ["and", ["not", ["=", "?z", "?x"]]]],
        ["forall", ["?z", "-", "t1"], ["or", ["=", "?z", "?x"], ["=", "?z", "?y"]]],
        # the quantified variable reuses an action parameter's name (the inner binding wins)
        ["forall", ["?x", "-", "t1"], ["and", ["q", "?x", "?y"]]],
        ["forall", ["?y", "-", "t3"], ["or", ["p", "?y"], ["q", "?x", "?y"]]],
        # a quantifier inside a quantified body; the inner body does not mention the outer variable (when it does the library
        # raises KeyError at evaluation - an error, which C01 accepts for forms it cannot represent - so that is outside C02)
        ["forall", ["?z", "-", "t1"], ["or", ["p", "?z"], ["forall", ["?w", "-", "t3"], ["and", ["q", "?w", "?x"]]]]],
        ["forall", ["?z", "-", "t3"], ["and", ["forall", ["?w", "-", "t1"], ["or", ["not", ["q", "?y", "?w"]], ["p", "?w"]]], ["p", "?z"]]],
    ]
    for fa in foralls:
        out.append(("P2", ["and", fa]))
        out.append(("P2", ["and", ["p", "?x"], fa]))
        out.append(("P2", ["and", fa, ["not", ["r"]]]))
    out.append(("P0", ["and"]))
    out.append(("P0", ["and", ["r"]]))
    out.append(("P0", ["and", ["p", "k"], [">", ["g"], "0"]]))
    out.append(("P1", ["and", ["p", "?x"], [">=", ["f", "?x"], ["f", "k"]]]))
    out.append(("P3", ["and", ["q", "?x", "?y"], ["not", ["=", "?x", "?y"]]]))
    out.append(("P3", ["and", ["forall", ["?z", "-", "t3"], ["and", ["q", "?z", "?y"]]]]))
    # the WHOLE precondition is not a conjunction: a disjunction, a single literal, a negation, a comparison, a quantifier
    out.append(("P2", ["or", ["p", "?x"], ["not", ["q", "?x", "?y"]], [">=", ["f", "?x"], "5"]]))
    out.append(("P2", ["or", ["p", "?x"], ["and", ["p", "?y"], ["r"]]]))
    out.append(("P2", ["or", ["=", "?x", "?y"], ["q", "?x", "?y"]]))
    out.append(("P1", ["p", "?x"]))
    out.append(("P1", ["not", ["p", "?x"]]))
    out.append(("P1", [">=", ["f", "?x"], "1"]))
    out.append(("P1", ["forall", ["?z", "-", "t1"], ["or", ["p", "?z"], ["q", "?x", "?z"]]]))
    return out


def core_effects():
    out = []
    singles = [
        ["p", "?x"], ["not", ["p", "?x"]], ["q", "?x", "?y"], ["not", ["q", "?y", "?x"]], ["r"], ["not", ["r"]],
        ["p", "k"],
        ["assign", ["f", "?x"], "3"], ["increase", ["f", "?x"], ["g"]], ["decrease", ["g"], ["f", "?y"]],
        ["assign", ["f", "?x"], ["+", ["f", "?y"], ["*", ["g"], "2"]]],
        ["increase", ["h", "?x", "?y"], ["-", ["f", "?x"], ["f", "?y"]]],
        ["assign", ["g"], ["/", ["f", "?x"], ["f", "?y"]]],
    ]
    for s in singles:
        out.append(("P2", ["and", s]))
    for a, b in itertools.combinations(singles, 2):
        out.append(("P2", ["and", a, b]))
    out.append(("P2", ["and", ["p", "?x"], ["not", ["p", "?x"]]]))
    out.append(("P2", ["and", ["not", ["p", "?x"]], ["p", "?y"]]))
    out.append(("P2", ["and", ["assign", ["f", "?x"], ["f", "?y"]], ["assign", ["f", "?y"], ["f", "?x"]]]))
    whens = [
        ["when", ["p", "?x"], ["q", "?x", "?y"]],
        ["when", ["not", ["p", "?x"]], ["not", ["q", "?x", "?y"]]],
        ["when", ["and", ["p", "?x"], ["p", "?y"]], ["and", ["r"], ["not", ["p", "?x"]]]],
        ["when", [">", ["f", "?x"], ["g"]], ["assign", ["f", "?y"], ["f", "?x"]]],
        ["when", ["and", ["r"], ["<=", ["f", "?x"], "0"]], ["and", ["increase", ["g"], "1"], ["p", "?y"]]],
        ["when", ["=", "?x", "?y"], ["r"]],
        ["when", ["not", ["=", "?x", "?y"]], ["not", ["r"]]],
        ["when", ["q", "?x", "?y"], ["increase", ["f", "?x"], ["f", "?y"]]],
    ]
    for w in whens:
        out.append(("P2", ["and", w]))
        out.append(("P2", ["and", ["p", "?y"], w]))
        out.append(("P2", ["and", w, ["increase", ["g"], "1"]]))
    out.append(("P2", ["and", whens[0], whens[1]]))
    out.append(("P2", ["and", whens[3], ["increase", ["g"], "1"]]))
    out.append(("P2", ["and", ["assign", ["g"], "7"], ["when", ["r"], ["assign", ["f", "?x"], ["g"]]]]))
    out.append(("P2", ["and", ["not", ["r"]], ["when", ["r"], ["p", "?x"]]]))
    foralls = [
        ["forall", ["?z", "-", "t1"], ["when", ["p", "?z"], ["not", ["p", "?z"]]]],
        ["forall", ["?z", "-", "t3"], ["when", ["not", ["p", "?z"]], ["p", "?z"]]],
        ["forall", ["?z", "-", "t1"], ["when", ["q", "?x", "?z"], ["and", ["q", "?z", "?x"], ["not", ["q", "?x", "?z"]]]]],
        ["forall", ["?z", "-", "t1"], ["when", ["and", ["p", "?z"], [">", ["f", "?z"], "0"]], ["decrease", ["f", "?z"], "1"]]],
        ["forall", ["?z", "-", "t1"], ["when", ["r"], ["increase", ["f", "?z"], ["g"]]]],
        ["forall", ["?z", "-", "t2"], ["when", ["p", "?x"], ["s", "?z"]]],
    ]
    for fa in foralls:
        out.append(("P2", ["and", fa]))
        out.append(("P2", ["and", ["r"], fa]))
    # two quantified effects that reuse the variable name with different types
    out.append(("P2", ["and", foralls[1], foralls[5]]))
    out.append(("P2", ["and", foralls[5], foralls[0], ["p", "?y"]]))
    out.append(("P2", ["and", foralls[0], whens[0]]))
    out.append(("P2", ["and", foralls[0], foralls[3]]))
    out.append(("P0", ["and"]))
    out.append(("P0", ["and", ["r"], ["increase", ["g"], "1"]]))
    out.append(("P1", ["and", ["p", "?x"], ["forall", ["?z", "-", "t1"], ["when", ["q", "?z", "?x"], ["not", ["q", "?z", "?x"]]]]]))
    out.append(("P3", ["and", ["not", ["p", "?x"]], ["when", ["p", "?y"], ["p", "?x"]]]))
    # a quantifier below a junction inside the condition of a conditional effect (plain and quantified)
    out.append(("P2", ["and", ["when", ["or", ["forall", ["?z", "-", "t1"], ["and", ["p", "?z"]]], ["r"]], ["q", "?x", "?y"]]]))
    out.append(("P2", ["and", ["forall", ["?w", "-", "t3"], ["when", ["and", ["p", "?x"], ["or", ["q", "?w", "?y"], ["forall", ["?z", "-", "t1"], ["and", ["q", "?z", "?x"]]]]],
                                                            ["not", ["p", "?w"]]]]]))
    # a numeric effect inside a quantified conditional effect whose right-hand side reads a fluent that another effect of the
    # same action changes (all right-hand sides are about the state before the action)
    out.append(("P2", ["and", ["decrease", ["g"], "2"], ["forall", ["?z", "-", "t1"], ["when", ["p", "?z"], ["increase", ["f", "?z"], ["g"]]]]]))
    out.append(("P2", ["and", ["assign", ["f", "?x"], "0"],
                       ["forall", ["?z", "-", "t1"], ["when", ["q", "?x", "?z"], ["increase", ["g"], ["f", "?x"]]]]]))
    out.append(("P2", ["and", ["assign", ["f", "?x"], ["-", "0", ["g"]]], ["increase", ["f", "?y"], ["/", "1", ["g"]]]]))
    out.append(("P2", ["and", ["decrease", ["g"], ["-", ["f", "?x"], "0"]], ["when", [">", ["-", "0", ["f", "?x"]], "1"], ["p", "?x"]]]))
    # a quantified effect whose variable has the name of an action parameter, over another type (a subtype / an unrelated type):
    # inside the effect the name is the quantified variable, with the quantifier's type
    out.append(("P2", ["and", ["forall", ["?x", "-", "t3"], ["when", ["not", ["p", "?x"]], ["p", "?x"]]]]))
    out.append(("P2", ["and", ["q", "?x", "?y"], ["forall", ["?y", "-", "t2"], ["when", ["p", "?x"], ["s", "?y"]]]]))
    out.append(("P4", ["and", ["forall", ["?u", "-", "t1"], ["when", ["q", "?x", "?u"], ["not", ["q", "?x", "?u"]]]], ["s", "?u"]]))
    return out


def deep_programs(seed: int, n: int):
    rng = random.Random(seed * 31337 + 7)
    out = []
    for _ in range(n):
        pl = rng.choice(["P2", "P2", "P1", "P3"])
        const = rng.random() < 0.5
        out.append((pl, const, deep_precondition(rng, PARAM_LISTS[pl], const, numeric=rng.random() < 0.5)))
    return out


def deep_when_effect(rng, params, const):
    """a conditional effect whose condition is a nested or / contains a forall"""
    cond = deep_precondition(rng, params, const, numeric=rng.random() < 0.4)
    res = results(rng, params, const, True, rng.choice([1, 2]))
    return ["and", ["when", cond, ["and"] + res]] + results(rng, params, const, False, rng.choice([0, 1]))


def sampled_programs(seed: int, n: int, want="pre"):
    """n random (plist, tree) programs; feature mix cycles through all subsets."""
    rng = random.Random(seed)
    out = []
    if want == "pre":
        feats = ["nested", "forall", "numeric", "equality"]
    else:
        feats = ["when", "forall", "numeric"]
    subsets = []
    for r in range(len(feats) + 1):
        subsets += [set(c) for c in itertools.combinations(feats, r)]
    i = 0
    while len(out) < n:
        fs = subsets[i % len(subsets)]
        i += 1
        pl = rng.choice(["P2", "P2", "P2", "P1", "P3", "P0", "P4"])
        const = rng.random() < 0.6
        params = PARAM_LISTS[pl]
        tree = precondition(rng, params, const, fs) if want == "pre" else effect(rng, params, const, fs)
        out.append((pl, const, tree))
    return out
